package repository_test

// C12: an exclusive lock never coexists with another active lock.
//
// Engine GATE: 2 (quick) or 3 (thorough) "processes", each with its own
// Repository over one shared gated store, run the real LockRepo (check, create,
// wait, re-check; then the refresh goroutines), hold the lock for a
// scheduler-chosen time, and unlock.  Explored: all interleavings of their
// lock-file operations (List/Load/Save/Remove of lock files) and of "time
// passes" (virtual time runs although operations are pending = slow
// operations), within the preemption bound.  Roles (thorough): a process that
// crashes while holding (backend severed, lock file stays), and a process
// running the real RemoveStaleLocks (`unlock`).
//
// Monitor, at every scheduler step: H = processes whose LockRepo returned
// success, whose lock context is not cancelled and that have not begun to
// unlock.  Invariant: an exclusive member of H is the only member of H.
// Also: a process whose LockRepo failed leaves no lock file behind once it has
// returned; no deadlock.

import (
	"context"
	"fmt"
	"os"
	"sort"
	"strings"
	"testing"
	"time"

	"github.com/restic/restic/internal/backend"
	"github.com/restic/restic/internal/repository"
	"github.com/restic/restic/internal/verifshim/gatebe"
	"github.com/restic/restic/internal/verifshim/oracle"
	"github.com/restic/restic/internal/verifshim/vh"
	"github.com/restic/restic/internal/verifshim/vx"
	"github.com/restic/restic/internal/verifshim/xplore"
)

type verifC12Proc struct {
	name      string
	exclusive bool
	role      string // "locker", "crasher", "unlocker"
	be        *gatebe.Backend
	lockCtx   context.Context
	holding   bool
	lockErr   error
	returned  bool
	heldOnce  bool
	crashed   bool
	done      bool
	frozen    bool      // inside a forced stale-lock refresh (its backend is frozen, it cannot write)
	lockedAt  time.Time // stale-holder: when LockRepo returned
}

// verifC12SlowBE is the backend of the "stale-holder": it can be frozen (so the harness sees the forced
// stale-lock refresh begin and end) and its lock-file uploads take 10 minutes once the lock is older than 22
// minutes (the replacement lock of the forced refresh reaches the storage late).
type verifC12SlowBE struct {
	backend.Backend
	p *verifC12Proc
}

func (b *verifC12SlowBE) Freeze() {
	b.p.frozen = true
	if os.Getenv("VERIF_DEBUG_TRACE") != "" {
		fmt.Fprintf(os.Stderr, "DBG %s freeze at %s\n", b.p.name, time.Now().Format("15:04:05"))
	}
}
func (b *verifC12SlowBE) Unfreeze() {
	b.p.frozen = false
	if os.Getenv("VERIF_DEBUG_TRACE") != "" {
		fmt.Fprintf(os.Stderr, "DBG %s unfreeze at %s ctxerr=%v\n", b.p.name, time.Now().Format("15:04:05"), b.p.lockCtx.Err())
	}
}
func (b *verifC12SlowBE) Save(ctx context.Context, h backend.Handle, rd backend.RewindReader) error {
	if h.Type == backend.LockFile && !b.p.lockedAt.IsZero() && time.Since(b.p.lockedAt) > 22*time.Minute {
		time.Sleep(10 * time.Minute)
	}
	return b.Backend.Save(ctx, h, rd)
}

type verifC12Exec struct {
	store     *gatebe.Store
	procs     []*verifC12Proc
	bad       []string
	bothHeld  bool
	contended bool
	// removeAbandoned: a lock-file removal was stalled beyond the 1-minute grace period of unlock and given up
	removeAbandoned bool
}

func verifC12LockFiles(store *gatebe.Store) int { return len(store.Keys(backend.LockFile)) }

func TestVerif_C12(t *testing.T) {
	r := vh.Start(t, "C12")
	defer r.Finish()
	r.Rule("GATE, 2-3 processes running the real LockRepo / Unlock (and RemoveStaleLocks, crash) over one shared gated store; all interleavings of their lock-file backend operations and of time passing, within the preemption bound. non-trivial = execution in which two processes had both created their lock file before either finished its re-check, or in which both held (shared) locks at the same time. states = distinct complete schedules.")
	r.Assume("one clock (zero skew): all processes share the bubble's virtual clock", "a backend operation takes effect atomically when the scheduler releases it; listings are immediately consistent except in the list-delay scenarios (new files listed 100 ms after upload)", "processes interact only through the backend", "no operation stalls longer than 5 minutes while pending (the statement excludes stalls beyond the staleness margin)")
	ctx := context.Background()
	oracle.LowKDF()
	_, store0, err := oracle.NewRepo(ctx, 2, repository.Options{})
	if err != nil {
		t.Fatal(err)
	}
	base := store0.Snapshot()

	type scen struct {
		name      string
		procs     []verifC12Proc
		listDelay time.Duration
	}
	scens := []scen{
		{"excl-vs-excl", []verifC12Proc{{name: "P1", exclusive: true, role: "locker"}, {name: "P2", exclusive: true, role: "locker"}}, 0},
		{"excl-vs-shared", []verifC12Proc{{name: "P1", exclusive: true, role: "locker"}, {name: "P2", exclusive: false, role: "locker"}}, 0},
		{"shared-vs-excl", []verifC12Proc{{name: "P1", exclusive: false, role: "locker"}, {name: "P2", exclusive: true, role: "locker"}}, 0},
		{"shared-vs-shared", []verifC12Proc{{name: "P1", exclusive: false, role: "locker"}, {name: "P2", exclusive: false, role: "locker"}}, 0},
		// eventually consistent listing: a new lock file shows up in listings 100 ms (< the 200 ms re-check wait) after its upload
		// the second process starts whenever the scheduler lets it - in particular in the middle of a refresh
		// of the first one's lock (every 5 minutes), when the holder replaces its lock file
		{"shared-refreshing-vs-late-excl", []verifC12Proc{{name: "P1", exclusive: false, role: "timed-locker"}, {name: "P2", exclusive: true, role: "late-locker"}}, 0},
		// a holder whose refreshes fail for 22 minutes enters the forced stale-lock refresh; its replacement lock
		// takes 10 minutes to reach the storage; meanwhile the old lock file turns stale, `unlock` (minute 31)
		// removes it and an exclusive locker (minute 32) acquires.  The holder must then give up (context
		// cancelled) when the forced refresh ends; while it is inside the forced refresh (backend frozen) it does
		// not count as a holder.
		{"stale-refresh-vs-unlock-vs-late-excl", []verifC12Proc{{name: "P1", exclusive: false, role: "stale-holder"}, {name: "P2", exclusive: true, role: "timed-late-locker"}, {name: "P3", role: "timed-unlocker"}}, 0},
		{"excl-vs-shared/list-delay-100ms", []verifC12Proc{{name: "P1", exclusive: true, role: "locker"}, {name: "P2", exclusive: false, role: "locker"}}, 100 * time.Millisecond},
	}
	if r.Thorough() {
		scens = append(scens,
			scen{"excl-excl-shared", []verifC12Proc{{name: "P1", exclusive: true, role: "locker"}, {name: "P2", exclusive: true, role: "locker"}, {name: "P3", exclusive: false, role: "locker"}}, 0},
			scen{"excl-vs-excl/list-delay-100ms", []verifC12Proc{{name: "P1", exclusive: true, role: "locker"}, {name: "P2", exclusive: true, role: "locker"}}, 100 * time.Millisecond},
			scen{"crasher-excl-unlocker", []verifC12Proc{{name: "P1", exclusive: true, role: "crasher"}, {name: "P2", exclusive: true, role: "locker"}, {name: "P3", role: "unlocker"}}, 0},
			scen{"crasher-shared-excl", []verifC12Proc{{name: "P1", exclusive: false, role: "crasher"}, {name: "P2", exclusive: true, role: "locker"}, {name: "P3", role: "unlocker"}}, 0},
		)
	}
	bound := vh.Pick(r, 2, 3)
	for _, sc := range scens {
		sc := sc
		xs := xplore.Scenario{
			Start: func(x *xplore.Exec) {
				st := &verifC12Exec{store: gatebe.NewStoreFrom(base, nil)}
				x.Data = st
				for i := range sc.procs {
					p := sc.procs[i] // copy
					pp := &p
					st.procs = append(st.procs, pp)
					armed := false
					pp.be = &gatebe.Backend{S: st.store, Proc: pp.name, Conns: 2, AtomicReplace: true, ListDelay: sc.listDelay,
						X: func() *xplore.Exec {
							if armed {
								return x
							}
							return nil
						},
						// only lock files matter here
						Filter: func(op *gatebe.Op) bool { return op.Key.Type == backend.LockFile },
					}
					pp.be.Observe = func(op *gatebe.Op, ans string, err error) {
						if op.Kind == "Remove" && ans == "cancelled" {
							st.removeAbandoned = true
						}
					}
					var top backend.Backend = pp.be
					if pp.role == "stale-holder" {
						pp.be.Alts = func(op *gatebe.Op) []string {
							if op.Kind == "Save" && !pp.lockedAt.IsZero() {
								if d := time.Since(pp.lockedAt); d > time.Minute && d < 22*time.Minute {
									return []string{"err"} // the regular refreshes fail
								}
							}
							return []string{"ok"}
						}
						top = &verifC12SlowBE{Backend: pp.be, p: pp}
					}
					repo, err := oracle.OpenOn(x.Ctx, top, repository.Options{})
					if err != nil {
						t.Fatalf("open: %v", err)
					}
					armed = true
					x.Go(pp.name, func() {
						defer func() { pp.done = true }()
						if pp.role == "timed-unlocker" {
							time.Sleep(31 * time.Minute)
							_, _ = repository.RemoveStaleLocks(x.Ctx, repo)
							return
						}
						if pp.role == "timed-late-locker" {
							time.Sleep(32 * time.Minute)
						}
						if pp.role == "unlocker" {
							// `restic unlock`: runs whenever the scheduler lets it
							x.Gate(xplore.Event{Key: pp.name + ":start-unlock", Proc: pp.name, Kind: "start", Yield: true})
							_, _ = repository.RemoveStaleLocks(x.Ctx, repo)
							return
						}
						if pp.role == "late-locker" {
							x.Gate(xplore.Event{Key: pp.name + ":start", Proc: pp.name, Kind: "start", Yield: true})
						}
						unlock, lctx, err := repository.LockRepo(x.Ctx, repo, pp.exclusive, 6*time.Second, func(string) {}, func(f string, a ...any) {
							if os.Getenv("VERIF_DEBUG_TRACE") != "" {
								fmt.Fprintf(os.Stderr, "DBG %s log at %s: "+f, append([]any{pp.name, time.Now().Format("15:04:05")}, a...)...)
							}
						}) // 6s: retry once after 5s, last attempt at 6s (0 would make Go's select choose randomly between two ready timers)
						pp.lockErr, pp.returned = err, true
						if err != nil {
							return
						}
						pp.lockCtx = lctx
						pp.holding, pp.heldOnce = true, true
						pp.lockedAt = time.Now()
						if pp.role == "stale-holder" {
							// works for 50 minutes unless it is told to stop
							select {
							case <-time.After(50 * time.Minute):
							case <-lctx.Done():
							}
							pp.holding = false
							unlock()
							return
						}
						if pp.role == "timed-locker" {
							// works for 12 minutes (two lock refreshes), then unlocks
							select {
							case <-time.After(12 * time.Minute):
							case <-lctx.Done():
							}
							pp.holding = false
							unlock()
							return
						}
						// hold the lock until the scheduler says otherwise
						a := x.Gate(xplore.Event{Key: pp.name + ":holding", Proc: pp.name, Kind: "work", Yield: true, Alts: verifC12HoldAlts(pp.role)})
						if pp.role == "crasher" && a == 1 {
							// process dies: it stops believing anything, its lock file stays
							pp.holding = false
							pp.crashed = true
							pp.be.Sever()
							unlock()
							return
						}
						pp.holding = false
						unlock()
					})
				}
			},
			OnStep: func(x *xplore.Exec) { verifC12Monitor(x) },
			OnEnd:  func(x *xplore.Exec) { verifC12Monitor(x) },
		}
		check := func(x *xplore.Exec) {
			st := x.Data.(*verifC12Exec)
			r.State(strings.Join(x.Trace, ">"))
			var out []string
			for _, p := range st.procs {
				out = append(out, fmt.Sprintf("%s:held=%v,err=%v", p.name, p.heldOnce, p.lockErr != nil))
			}
			sort.Strings(out)
			r.Outcome(sc.name + " " + strings.Join(out, " "))
			if st.contended || st.bothHeld {
				r.Nontrivial(strings.Join(x.Trace, ">"))
			}
			if len(x.Panics) > 0 {
				st.bad = append(st.bad, "panic: "+x.Panics[0])
			}
			if x.Deadlock {
				st.bad = append(st.bad, "deadlock: unfinished processes but nothing enabled, even after the idle timeout")
			}
			if !x.Deadlock && !x.Horizon && len(x.Panics) == 0 {
				// everybody finished: no lock file may remain except a crashed process's
				crashed := false
				for _, p := range st.procs {
					if p.crashed {
						crashed = true
					}
				}
				if n := verifC12LockFiles(st.store); n > 0 && !crashed && !st.removeAbandoned {
					st.bad = append(st.bad, fmt.Sprintf("leftover: %d lock file(s) remain after every process unlocked or gave up", n))
				}
			}
			if sc.name == "stale-refresh-vs-unlock-vs-late-excl" && len(st.bad) > 0 && time.Duration(x.Stalls)*5*time.Minute > 15*time.Minute/2 {
				// operations of this execution were stalled for more than the 7.5-minute margin between the
				// refreshability timeout and the staleness limit: outside the statement's assumption ("no process
				// stalls longer than that margin inside a single operation"); with the timed unlock / late locker
				// of this scenario such a stall lets the lock be judged stale before the holder's forced refresh
				r.Outcome(sc.name + " outside-stall-assumption")
				st.bad = nil
			}
			if len(st.bad) > 0 {
				kind := "other"
				switch {
				case strings.HasPrefix(st.bad[0], "conflict"):
					kind = "conflicting-holders"
				case strings.HasPrefix(st.bad[0], "leftover"):
					kind = "leftover-lock"
				case strings.HasPrefix(st.bad[0], "deadlock"):
					kind = "deadlock"
				case strings.HasPrefix(st.bad[0], "panic"):
					kind = "panic"
				}
				key := "C12|" + kind + "|" + sc.name
				if kind == "conflicting-holders" && sc.listDelay > 0 {
					// with an eventually consistent listing, a refresh (upload replacement, remove old file) opens a
					// window of the listing delay in which NO lock file of the holder is listed
					refreshed := false
					for _, k := range x.Trace {
						if strings.Contains(k, ":Save:lock#2") {
							refreshed = true
						}
					}
					if refreshed {
						key = "C12|conflicting-holders|list-delay|re-check-falls-into-refresh-window"
					}
				}
				vx.Violation(r, sc.name, x, key, strings.Join(st.bad, "\n"), nil)
			}
			if len(x.Trace) > 12 && st.contended {
				r.Sample(map[string]any{"scenario": sc.name, "events": x.Labels[:12], "outcome": out})
			}
		}
		stt := vx.Explore(r, t, sc.name, xs, xplore.Options{Policy: xplore.Preempt, Bound: bound, MaxSteps: 400, TimeAction: true, TimeQuantum: 5 * time.Minute, IdleTimeout: 3 * time.Hour}, check)
		r.Note("%s: execs(this shard)=%d", sc.name, stt.Execs)
	}
	r.Extra("preemption_bound", bound)
}

func verifC12HoldAlts(role string) []string {
	if role == "crasher" {
		return []string{"release", "crash"}
	}
	return []string{"release"}
}

func verifC12Monitor(x *xplore.Exec) {
	st := x.Data.(*verifC12Exec)
	var holders []*verifC12Proc
	created := 0
	for _, p := range st.procs {
		if p.holding && p.lockCtx != nil && p.lockCtx.Err() == nil && !p.frozen {
			holders = append(holders, p)
		}
	}
	if len(holders) > 1 {
		st.bothHeld = true
		for _, h := range holders {
			if h.exclusive {
				var names []string
				for _, o := range holders {
					names = append(names, fmt.Sprintf("%s(exclusive=%v)", o.name, o.exclusive))
				}
				msg := fmt.Sprintf("conflict at step %d: %s believe they hold their locks at the same time", x.StepNo, strings.Join(names, ", "))
				if os.Getenv("VERIF_DEBUG_TRACE") != "" {
					fmt.Fprintf(os.Stderr, "DBG %s at %s\n", msg, time.Now().Format("15:04:05"))
				}
				if len(st.bad) == 0 || !strings.HasPrefix(st.bad[0], "conflict") {
					st.bad = append([]string{msg}, st.bad...)
				}
				break
			}
		}
	}
	// contention: two lock files exist while a process is still inside LockRepo
	if verifC12LockFiles(st.store) >= 2 {
		for _, p := range st.procs {
			if !p.returned && p.role != "unlocker" {
				created++
			}
		}
		if created > 0 {
			st.contended = true
		}
	}
}

// TestVerifRace_C12 runs every scenario body free (gates answer at once, no oracle) under the race detector.
func TestVerifRace_C12(t *testing.T) {
	xplore.Free = 2
	defer func() { xplore.Free = 0 }()
	TestVerif_C12(t)
}

package crypto_test

// C05: authenticated encryption round-trips and rejects every forgery.
//
// Space (complete, no sampling):
//   - 3 fixed keys x 3 fixed nonces (keys: 2 hash-derived / all-0xff; nonces: hash-derived / all-0xff (CTR counter wrap-around) /
//     a single set bit (a flip of it yields the all-zero nonce)).
//   - plaintext lengths 0..300 (every length), 4096, 65536: Seal in 4 dst
//     aliasing variants is compared byte for byte with an INDEPENDENT
//     recomputation (AES-CTR built from single crypto/aes block encryptions
//     with a hand-written 128-bit big-endian counter; Poly1305-AES written
//     with math/big, including the clamping of r), then Open in 3 dst variants
//     must return the plaintext.
//   - for lengths 0..64, 4096 and 65536: EVERY single-bit flip of
//     nonce || ciphertext || tag and EVERY truncation length of
//     ciphertext || tag (0 .. len-1), plus extension by one byte, must make
//     Open return an error (65536: one key/nonce pair in the quick tier, all 9
//     in the thorough tier).
//   - key swaps: Open with every other fixed key; with every single-bit
//     variant of the encryption key (256), MAC-K (128), MAC-R (128).
//   - all-zero nonce; keys with an all-zero component; keys whose component
//     has exactly one non-zero byte (every position) must be accepted.
//   - KDF: every salt length 0..130 and a grid of scrypt parameters.
//
// Oracle notes (deviations from the literal statement, both weaker):
//   - Poly1305 clamps 22 bits of r.  A MAC key that differs from the sealing
//     key only in clamped bits is the same key; the math/big reference decides
//     this (reference tag equal => Open must succeed with the same plaintext,
//     different => Open must fail).
//   - A key that differs only in the encryption part cannot be rejected by an
//     encrypt-then-MAC construction whose MAC does not cover that key.  The
//     oracle only demands: error, or a plaintext different from the original
//     (for plaintexts of >= 16 bytes; shorter ones can coincide by chance);
//     what happens is recorded as an outcome.
//   - Nonce slices of the wrong length are an API contract violation
//     (documented panic) and are not part of the space.

import (
	"bytes"
	"crypto/aes"
	"crypto/sha256"
	"fmt"
	"math/big"
	"testing"

	"github.com/restic/restic/internal/repository/crypto"
	"github.com/restic/restic/internal/verifshim/vh"
	"golang.org/x/crypto/scrypt"
)

// ---- independent reference ----

func verifC05Bytes(label string, n int) []byte {
	out := make([]byte, 0, n+32)
	ctr := 0
	for len(out) < n {
		h := sha256.Sum256([]byte(fmt.Sprintf("verif-C05/%s/%d", label, ctr)))
		out = append(out, h[:]...)
		ctr++
	}
	return out[:n]
}

// verifC05CTR: AES-256 in counter mode, counter = 128-bit big-endian integer
// starting at iv, wrapping around.
func verifC05CTR(key []byte, iv []byte, in []byte) []byte {
	blk, err := aes.NewCipher(key)
	if err != nil {
		panic(err)
	}
	ctr := append([]byte{}, iv...)
	out := make([]byte, len(in))
	var ks [16]byte
	for off := 0; off < len(in); off += 16 {
		blk.Encrypt(ks[:], ctr)
		for i := 0; i < 16 && off+i < len(in); i++ {
			out[off+i] = in[off+i] ^ ks[i]
		}
		for i := 15; i >= 0; i-- {
			ctr[i]++
			if ctr[i] != 0 {
				break
			}
		}
	}
	return out
}

func verifC05LE(b []byte) *big.Int {
	rev := make([]byte, len(b))
	for i := range b {
		rev[len(b)-1-i] = b[i]
	}
	return new(big.Int).SetBytes(rev)
}

var verifC05P = new(big.Int).Sub(new(big.Int).Lsh(big.NewInt(1), 130), big.NewInt(5))

// verifC05Poly: Poly1305 (RFC 8439 section 2.5) with r (clamped here) and s.
func verifC05Poly(r16, s16, msg []byte) [16]byte {
	rc := append([]byte{}, r16...)
	rc[3] &= 15
	rc[7] &= 15
	rc[11] &= 15
	rc[15] &= 15
	rc[4] &= 252
	rc[8] &= 252
	rc[12] &= 252
	r := verifC05LE(rc)
	s := verifC05LE(s16)
	acc := new(big.Int)
	tmp := make([]byte, 0, 17)
	for off := 0; off < len(msg); off += 16 {
		end := off + 16
		if end > len(msg) {
			end = len(msg)
		}
		tmp = append(tmp[:0], msg[off:end]...)
		tmp = append(tmp, 1)
		acc.Add(acc, verifC05LE(tmp))
		acc.Mul(acc, r)
		acc.Mod(acc, verifC05P)
	}
	acc.Add(acc, s)
	var tag [16]byte
	b := acc.Bytes() // big endian
	for i := 0; i < 16 && i < len(b); i++ {
		tag[i] = b[len(b)-1-i]
	}
	return tag
}

// verifC05Tag: Poly1305-AES: s = AES-128_K(nonce).
func verifC05Tag(k *crypto.Key, nonce, ct []byte) [16]byte {
	blk, err := aes.NewCipher(k.MACKey.K[:])
	if err != nil {
		panic(err)
	}
	var s [16]byte
	blk.Encrypt(s[:], nonce)
	return verifC05Poly(k.MACKey.R[:], s[:], ct)
}

func verifC05Seal(k *crypto.Key, nonce, pt []byte) []byte {
	ct := verifC05CTR(k.EncryptionKey[:], nonce, pt)
	tag := verifC05Tag(k, nonce, ct)
	return append(ct, tag[:]...)
}

// ---- fixtures ----

func verifC05Keys() []*crypto.Key {
	k0 := &crypto.Key{}
	copy(k0.EncryptionKey[:], verifC05Bytes("k0/enc", 32))
	copy(k0.MACKey.K[:], verifC05Bytes("k0/mack", 16))
	copy(k0.MACKey.R[:], verifC05Bytes("k0/macr", 16))
	k1 := &crypto.Key{}
	for i := range k1.EncryptionKey {
		k1.EncryptionKey[i] = 0xff
	}
	for i := 0; i < 16; i++ {
		k1.MACKey.K[i] = 0xff
		k1.MACKey.R[i] = 0xff
	}
	// (a key with a degenerate r such as a single set bit is a weak Poly1305
	// key - a flip changing the polynomial by exactly 2^128 is invisible in the
	// 128-bit tag - and is outside the "random keys" quantifier; sparse keys are
	// only exercised for validity/round trip in section E)
	k2 := &crypto.Key{}
	copy(k2.EncryptionKey[:], verifC05Bytes("k2/enc", 32))
	copy(k2.MACKey.K[:], verifC05Bytes("k2/mack", 16))
	copy(k2.MACKey.R[:], verifC05Bytes("k2/macr", 16))
	return []*crypto.Key{k0, k1, k2}
}

func verifC05Nonces() [][]byte {
	n0 := verifC05Bytes("n0", 16)
	n1 := bytes.Repeat([]byte{0xff}, 16)
	n2 := make([]byte, 16)
	n2[15] = 0x01
	return [][]byte{n0, n1, n2}
}

func verifC05Plain(l int) []byte { return verifC05Bytes(fmt.Sprintf("pt/%d", l), l) }

func verifC05Lengths() []int {
	var ls []int
	for l := 0; l <= 300; l++ {
		ls = append(ls, l)
	}
	return append(ls, 4096, 65536)
}

func verifC05Open(k *crypto.Key, dst, nonce, ct []byte) (out []byte, err error, panicked bool, msg string) {
	panicked, msg = vh.NoPanic(func() { out, err = k.Open(dst, nonce, ct, nil) })
	return
}

func TestVerif_C05(t *testing.T) {
	r := vh.Start(t, "C05")
	defer r.Finish()
	r.Rule("3 keys x 3 nonces x plaintext lengths 0..300,4096,65536: Seal (4 dst variants) compared with an independent AES-CTR + math/big Poly1305-AES recomputation and Open round trip; for lengths 0..64, 4096, 65536 every single-bit flip of nonce||ciphertext||tag and every truncation length; key swaps incl. every single-bit key variant; zero nonce; invalid keys; KDF salt/parameter grid.  Non-trivial = an altered input (flip/truncation/other key) submitted to Open, or a Seal output compared with the reference")
	r.Assume("a single-bit flip or truncation colliding on the 128-bit Poly1305 tag for the fixed keys would be reported as a violation (probability ~2^-100 per case); none is expected")
	keys := verifC05Keys()
	nonces := verifC05Nonces()

	// --- A: Seal vs reference, round trip, aliasing variants ---
	for ki, k := range keys {
		for ni, nonce := range nonces {
			for _, l := range verifC05Lengths() {
				ck := fmt.Sprintf("seal|k%d|n%d|len=%d", ki, ni, l)
				if !r.Case(ck) {
					continue
				}
				if r.Expired() {
					return
				}
				verifC05SealCase(r, ck, k, nonce, l)
			}
		}
	}

	// --- B: bit flips; C: truncations ---
	var tamperLens []int
	for l := 0; l <= 64; l++ {
		tamperLens = append(tamperLens, l)
	}
	tamperLens = append(tamperLens, 4096, 65536)
	const chunkBits = 8 * 1024
	for ki, k := range keys {
		for ni, nonce := range nonces {
			for _, l := range tamperLens {
				if l == 65536 && !r.Thorough() && !(ki == 0 && ni == 0) {
					continue
				}
				pt := verifC05Plain(l)
				var sealed []byte // nonce || ct || tag, built lazily
				build := func() {
					if sealed == nil {
						sealed = append(append([]byte{}, nonce...), k.Seal(nil, nonce, pt, nil)...)
					}
				}
				total := (32 + l) * 8
				for lo := 0; lo < total; lo += chunkBits {
					ck := fmt.Sprintf("flip|k%d|n%d|len=%d|bits=%d", ki, ni, l, lo)
					if !r.Case(ck) {
						continue
					}
					if r.Expired() {
						return
					}
					build()
					hi := lo + chunkBits
					if hi > total {
						hi = total
					}
					buf := append([]byte{}, sealed...)
					for bit := lo; bit < hi; bit++ {
						buf[bit/8] ^= 1 << uint(bit%8)
						out, err, pn, msg := verifC05Open(k, nil, buf[:16], buf[16:])
						buf[bit/8] ^= 1 << uint(bit%8)
						r.Eval(1)
						r.NontrivialByConstruction(1)
						region := "ciphertext"
						switch {
						case bit < 128:
							region = "nonce"
						case bit >= (16+l)*8:
							region = "tag"
						}
						if pn {
							r.Violationf(ck, fmt.Sprintf("C05|flip-panic|%s|k%d|n%d|len=%d", region, ki, ni, l), map[string]any{"key": ki, "nonce": ni, "len": l, "bit": bit}, "Open panicked on a flipped bit: %s", msg)
							continue
						}
						if err == nil {
							r.Outcome("flip-accepted/" + region)
							r.Violationf(ck, fmt.Sprintf("C05|flip-accepted|%s|k%d|n%d|len=%d|bit=%d", region, ki, ni, l, bit),
								map[string]any{"key": ki, "nonce": ni, "len": l, "bit_of_nonce_ct_tag": bit, "region": region, "plaintext_unchanged": bytes.Equal(out, pt)},
								"Open accepted nonce||ciphertext||tag with bit %d (%s) flipped (plaintext length %d)", bit, region, l)
						} else {
							r.Outcome("flip-rejected/" + region + "/" + verifC05ErrClass(err))
						}
					}
					if !bytes.Equal(buf, sealed) {
						t.Fatalf("harness: Open modified its input")
					}
				}

				ck := fmt.Sprintf("trunc|k%d|n%d|len=%d", ki, ni, l)
				if !r.Case(ck) {
					continue
				}
				build()
				body := sealed[16:]
				for tl := 0; tl <= len(body)+1; tl++ {
					var in []byte
					switch {
					case tl < len(body):
						in = body[:tl:tl]
					case tl == len(body):
						continue // the unaltered input
					default:
						in = append(append([]byte{}, body...), 0)
					}
					out, err, pn, msg := verifC05Open(k, nil, sealed[:16], in)
					r.Eval(1)
					r.NontrivialByConstruction(1)
					class := "truncated>=overhead"
					switch {
					case tl < 16:
						class = "shorter-than-overhead"
					case tl > len(body):
						class = "extended"
					}
					if pn {
						r.Violationf(ck, fmt.Sprintf("C05|trunc-panic|%s|k%d|n%d|len=%d", class, ki, ni, l), map[string]any{"key": ki, "nonce": ni, "len": l, "input_len": tl}, "Open panicked on input of length %d: %s", tl, msg)
						continue
					}
					if err == nil {
						r.Violationf(ck, fmt.Sprintf("C05|trunc-accepted|%s|k%d|n%d|len=%d|inputlen=%d", class, ki, ni, l, tl),
							map[string]any{"key": ki, "nonce": ni, "len": l, "input_len": tl, "full_len": len(body), "returned_len": len(out)},
							"Open accepted ciphertext||tag cut/extended from %d to %d bytes", len(body), tl)
					} else {
						r.Outcome("len-rejected/" + class + "/" + verifC05ErrClass(err))
					}
				}
				r.Trace(1)
			}
		}
	}

	// --- D: key swaps ---
	swapLens := []int{0, 1, 15, 16, 17, 64, 300}
	for ki, k := range keys {
		for ni, nonce := range nonces {
			ck := fmt.Sprintf("keyswap|k%d|n%d", ki, ni)
			if !r.Case(ck) {
				continue
			}
			for _, l := range swapLens {
				pt := verifC05Plain(l)
				sealed := k.Seal(nil, nonce, pt, nil)
				origTag := sealed[l:]
				// entirely different keys
				for kj, other := range keys {
					if kj == ki {
						continue
					}
					_, err, pn, msg := verifC05Open(other, nil, nonce, sealed)
					r.Eval(1)
					r.NontrivialByConstruction(1)
					if pn || err == nil {
						r.Violationf(ck, fmt.Sprintf("C05|other-key-accepted|k%d->k%d|n%d|len=%d", ki, kj, ni, l), map[string]any{"sealed_with": ki, "opened_with": kj, "nonce": ni, "len": l, "panic": msg},
							"Open with a completely different key did not fail (panicked=%v)", pn)
					}
				}
				// single-bit variants
				for _, comp := range []string{"enc", "mack", "macr"} {
					bits := 128
					if comp == "enc" {
						bits = 256
					}
					for bit := 0; bit < bits; bit++ {
						kk := *k
						switch comp {
						case "enc":
							kk.EncryptionKey[bit/8] ^= 1 << uint(bit%8)
						case "mack":
							kk.MACKey.K[bit/8] ^= 1 << uint(bit%8)
						case "macr":
							kk.MACKey.R[bit/8] ^= 1 << uint(bit%8)
						}
						if !verifC05RefValid(&kk) {
							// flipping the only set bit of k2 yields an invalid key: must be rejected
							_, err, pn, _ := verifC05Open(&kk, nil, nonce, sealed)
							r.Eval(1)
							if pn || err == nil {
								r.Violationf(ck, fmt.Sprintf("C05|invalid-key-open|%s|k%d", comp, ki), map[string]any{"key": ki, "component": comp, "bit": bit}, "Open with a key whose %s component is all zero did not return an error (panicked=%v)", comp, pn)
							}
							continue
						}
						refTag := verifC05Tag(&kk, nonce, sealed[:l])
						sameMAC := bytes.Equal(refTag[:], origTag)
						out, err, pn, msg := verifC05Open(&kk, nil, nonce, sealed)
						r.Eval(1)
						r.NontrivialByConstruction(1)
						det := map[string]any{"key": ki, "nonce": ni, "len": l, "component": comp, "bit": bit, "reference_tag_equal": sameMAC}
						if pn {
							r.Violationf(ck, fmt.Sprintf("C05|keybit-panic|%s|k%d|n%d|len=%d", comp, ki, ni, l), det, "Open panicked with a one-bit key variant: %s", msg)
							continue
						}
						switch {
						case comp == "enc":
							// MAC does not cover the encryption key: error or a different plaintext
							if err == nil && l >= 16 && bytes.Equal(out, pt) {
								r.Violationf(ck, fmt.Sprintf("C05|enckey-bit-ignored|k%d|n%d|len=%d|bit=%d", ki, ni, l, bit), det, "Open with encryption key bit %d flipped returned the original plaintext", bit)
							}
							r.Outcome(fmt.Sprintf("enc-key-bit/err=%v", err != nil))
						case sameMAC:
							// functionally identical MAC key (clamped bit of r)
							if err != nil || !bytes.Equal(out, pt) {
								r.Violationf(ck, fmt.Sprintf("C05|equivalent-mackey-rejected|%s|k%d|n%d|len=%d|bit=%d", comp, ki, ni, l, bit), det, "Open failed (%v) although the reference Poly1305-AES tag under this key equals the stored tag", err)
							}
							r.Outcome("mac-key-bit/clamped/accepted")
						default:
							if err == nil {
								r.Violationf(ck, fmt.Sprintf("C05|mackey-bit-accepted|%s|k%d|n%d|len=%d|bit=%d", comp, ki, ni, l, bit), det, "Open accepted data sealed under a MAC key differing in %s bit %d (reference tag differs)", comp, bit)
							}
							r.Outcome("mac-key-bit/effective/err=" + fmt.Sprint(err != nil))
						}
					}
				}
			}
			r.Trace(1)
		}
	}

	// --- E: zero nonce and invalid keys ---
	if r.Case("invalid-nonce-and-keys") {
		ck := "invalid-nonce-and-keys"
		zero := make([]byte, 16)
		for ki, k := range keys {
			for _, l := range []int{0, 1, 16, 100} {
				pt := verifC05Plain(l)
				pn, _ := vh.NoPanic(func() { _ = k.Seal(nil, zero, pt, nil) })
				r.Eval(1)
				r.NontrivialByConstruction(1)
				if !pn {
					r.Violationf(ck, fmt.Sprintf("C05|zero-nonce-seal|k%d|len=%d", ki, l), map[string]any{"key": ki, "len": l}, "Seal accepted the all-zero nonce")
				}
				// a ciphertext that would verify under the zero nonce
				forged := verifC05Seal(k, zero, pt)
				_, err, pn2, msg := verifC05Open(k, nil, zero, forged)
				r.Eval(1)
				r.NontrivialByConstruction(1)
				if pn2 || err == nil {
					r.Violationf(ck, fmt.Sprintf("C05|zero-nonce-open|k%d|len=%d", ki, l), map[string]any{"key": ki, "len": l, "panic": msg}, "Open with the all-zero nonce and a correctly authenticated ciphertext did not return an error (panicked=%v)", pn2)
				}
			}
		}
		good := keys[0]
		nonce := nonces[0]
		for _, comp := range []string{"enc", "mack", "macr", "mac", "all"} {
			kk := *good
			if comp == "enc" || comp == "all" {
				kk.EncryptionKey = crypto.EncryptionKey{}
			}
			if comp == "mack" || comp == "mac" || comp == "all" {
				kk.MACKey.K = [16]byte{}
			}
			if comp == "macr" || comp == "mac" || comp == "all" {
				kk.MACKey.R = [16]byte{}
			}
			for _, l := range []int{0, 1, 16, 100} {
				pt := verifC05Plain(l)
				pn, _ := vh.NoPanic(func() { _ = kk.Seal(nil, nonce, pt, nil) })
				r.Eval(1)
				r.NontrivialByConstruction(1)
				if !pn {
					r.Violationf(ck, fmt.Sprintf("C05|invalid-key-seal|%s|len=%d", comp, l), map[string]any{"zero_component": comp, "len": l}, "Seal accepted a key whose %s part is all zero", comp)
				}
				forged := verifC05Seal(&kk, nonce, pt)
				_, err, pn2, msg := verifC05Open(&kk, nil, nonce, forged)
				r.Eval(1)
				r.NontrivialByConstruction(1)
				if pn2 || err == nil {
					r.Violationf(ck, fmt.Sprintf("C05|invalid-key-open|%s|len=%d", comp, l), map[string]any{"zero_component": comp, "len": l, "panic": msg}, "Open with a key whose %s part is all zero did not return an error (panicked=%v)", comp, pn2)
				}
			}
			if kk.Valid() {
				r.Violationf(ck, "C05|invalid-key-valid|"+comp, comp, "Key.Valid() is true for a key whose %s part is all zero", comp)
			}
		}
		// keys with exactly one non-zero byte per component (every position) are valid and must work
		pt := verifC05Plain(33)
		for ep := 0; ep < 32; ep++ {
			for mp := 0; mp < 16; mp++ {
				kk := crypto.Key{}
				kk.EncryptionKey[ep] = 1
				kk.MACKey.K[mp] = 0x40
				kk.MACKey.R[(mp*7+ep)%16] = 0x08 // bit 3 is never clamped
				r.Eval(1)
				var sealed []byte
				pn, msg := vh.NoPanic(func() { sealed = kk.Seal(nil, nonce, pt, nil) })
				det := map[string]any{"enc_nonzero_byte": ep, "mack_nonzero_byte": mp, "macr_nonzero_byte": (mp*7 + ep) % 16}
				if pn || !kk.Valid() {
					r.Violationf(ck, fmt.Sprintf("C05|valid-key-rejected|enc=%d|mac=%d", ep, mp), det, "a key with one non-zero byte per component is refused (Valid=%v): %s", kk.Valid(), msg)
					continue
				}
				if !bytes.Equal(sealed, verifC05Seal(&kk, nonce, pt)) {
					r.Violationf(ck, fmt.Sprintf("C05|seal-differs|sparse-key|enc=%d|mac=%d", ep, mp), det, "Seal output differs from the reference")
				}
				out, err, pn2, _ := verifC05Open(&kk, nil, nonce, sealed)
				if pn2 || err != nil || !bytes.Equal(out, pt) {
					r.Violationf(ck, fmt.Sprintf("C05|roundtrip|sparse-key|enc=%d|mac=%d", ep, mp), det, "round trip failed: %v", err)
				}
			}
		}
		r.Trace(1)
	}

	// --- F: KDF ---
	verifC05KDF(r)
}

func verifC05RefValid(k *crypto.Key) bool {
	nz := func(b []byte) bool {
		for _, x := range b {
			if x != 0 {
				return true
			}
		}
		return false
	}
	return nz(k.EncryptionKey[:]) && nz(k.MACKey.K[:]) && nz(k.MACKey.R[:])
}

func verifC05ErrClass(err error) string {
	switch {
	case err == nil:
		return "nil"
	case err == crypto.ErrUnauthenticated:
		return "unauthenticated"
	default:
		return err.Error()
	}
}

func verifC05SealCase(r *vh.Run, ck string, k *crypto.Key, nonce []byte, l int) {
	pt := verifC05Plain(l)
	want := verifC05Seal(k, nonce, pt)
	prefix := []byte("PREFIX-")
	type variant struct {
		name string
		run  func() (sealed []byte, ptAfter []byte)
	}
	variants := []variant{
		{"dst=nil", func() ([]byte, []byte) {
			p := append([]byte{}, pt...)
			return k.Seal(nil, nonce, p, nil), p
		}},
		{"dst=prefix,cap-sufficient", func() ([]byte, []byte) {
			p := append([]byte{}, pt...)
			dst := make([]byte, len(prefix), len(prefix)+l+16+5)
			copy(dst, prefix)
			out := k.Seal(dst, nonce, p, nil)
			if len(out) < len(prefix) || !bytes.Equal(out[:len(prefix)], prefix) {
				return nil, p
			}
			if len(out) > 0 && len(dst) > 0 && &out[0] != &dst[0] {
				r.Outcome("seal-reallocated-despite-capacity")
			}
			return out[len(prefix):], p
		}},
		{"dst=prefix,cap-insufficient", func() ([]byte, []byte) {
			p := append([]byte{}, pt...)
			dst := append(make([]byte, 0, len(prefix)), prefix...)
			out := k.Seal(dst, nonce, p, nil)
			if len(out) < len(prefix) || !bytes.Equal(out[:len(prefix)], prefix) {
				return nil, p
			}
			return out[len(prefix):], p
		}},
		{"dst=plaintext[:0]", func() ([]byte, []byte) {
			p := make([]byte, l, l+16)
			copy(p, pt)
			return k.Seal(p[:0], nonce, p, nil), nil
		}},
	}
	for _, v := range variants {
		var sealed, ptAfter []byte
		nonceCopy := append([]byte{}, nonce...)
		pn, msg := vh.NoPanic(func() { sealed, ptAfter = v.run() })
		r.Eval(1)
		r.NontrivialByConstruction(1)
		det := map[string]any{"case": ck, "variant": v.name, "len": l}
		if pn {
			r.Violationf(ck, fmt.Sprintf("C05|seal-panic|%s|len=%d", v.name, l), det, "Seal panicked: %s", msg)
			continue
		}
		if !bytes.Equal(nonceCopy, nonce) {
			r.Violationf(ck, "C05|seal-modified-nonce|"+v.name, det, "Seal modified the nonce slice")
		}
		if !bytes.Equal(sealed, want) {
			r.Violationf(ck, fmt.Sprintf("C05|seal-differs|%s|len=%d", v.name, l), det, "Seal output (%d bytes) differs from the independent AES-CTR + Poly1305-AES recomputation (%d bytes)", len(sealed), len(want))
			continue
		}
		if ptAfter != nil && !bytes.Equal(ptAfter, pt) {
			r.Violationf(ck, fmt.Sprintf("C05|seal-clobbered-plaintext|%s|len=%d", v.name, l), det, "Seal modified a plaintext buffer that does not alias dst")
		}
	}
	if len(want) != l+16 || crypto.CiphertextLength(l) != l+32 || crypto.PlaintextLength(l+32) != l {
		r.Violationf(ck, fmt.Sprintf("C05|lengths|len=%d", l), l, "length bookkeeping wrong: sealed=%d CiphertextLength=%d PlaintextLength=%d", len(want), crypto.CiphertextLength(l), crypto.PlaintextLength(l+32))
	}

	// Open variants on the reference ciphertext
	openVariants := []struct {
		name string
		run  func() ([]byte, error)
	}{
		{"dst=nil", func() ([]byte, error) { return k.Open(nil, nonce, append([]byte{}, want...), nil) }},
		{"dst=ciphertext[:0]", func() ([]byte, error) {
			c := append([]byte{}, want...)
			return k.Open(c[:0], nonce, c, nil)
		}},
		{"dst=prefix", func() ([]byte, error) {
			dst := append(make([]byte, 0, len(prefix)+l), prefix...)
			out, err := k.Open(dst, nonce, append([]byte{}, want...), nil)
			if err != nil {
				return nil, err
			}
			if len(out) < len(prefix) || !bytes.Equal(out[:len(prefix)], prefix) {
				return nil, fmt.Errorf("verif: prefix of dst not preserved")
			}
			return out[len(prefix):], nil
		}},
	}
	for _, v := range openVariants {
		var out []byte
		var err error
		pn, msg := vh.NoPanic(func() { out, err = v.run() })
		r.Eval(1)
		det := map[string]any{"case": ck, "variant": v.name, "len": l}
		if pn {
			r.Violationf(ck, fmt.Sprintf("C05|open-panic|%s|len=%d", v.name, l), det, "Open panicked: %s", msg)
			continue
		}
		if err != nil || !bytes.Equal(out, pt) {
			r.Violationf(ck, fmt.Sprintf("C05|roundtrip|%s|len=%d", v.name, l), det, "Open of the correctly sealed data: err=%v, plaintext equal=%v", err, bytes.Equal(out, pt))
		}
	}
	r.Outcome("roundtrip-ok")
	r.Trace(1)
	if l == 3 {
		r.Sample(map[string]any{"case": ck, "plaintext": fmt.Sprintf("%x", pt), "sealed": fmt.Sprintf("%x", want)})
	}
}

func verifC05KDF(r *vh.Run) {
	// salt lengths: only 64 is accepted
	if r.Case("kdf|salt") {
		ck := "kdf|salt"
		p := crypto.Params{N: 4, R: 1, P: 1}
		for sl := 0; sl <= 130; sl++ {
			salt := verifC05Bytes("salt", sl)
			var k *crypto.Key
			var err error
			pn, msg := vh.NoPanic(func() { k, err = crypto.KDF(p, salt, "password") })
			r.Eval(1)
			if pn {
				r.Violationf(ck, fmt.Sprintf("C05|kdf-panic|saltlen=%d", sl), sl, "KDF panicked: %s", msg)
				continue
			}
			if (err == nil) != (sl == 64) {
				r.Violationf(ck, fmt.Sprintf("C05|kdf-salt|saltlen=%d", sl), sl, "KDF with salt length %d: err=%v (only 64 byte salts are valid)", sl, err)
			}
			if err == nil && (k == nil || !k.Valid()) {
				r.Violationf(ck, fmt.Sprintf("C05|kdf-key|saltlen=%d", sl), sl, "KDF returned an invalid key without error")
			}
		}
	}
	// parameter grid: no panic; accepted parameters yield exactly scrypt(password, salt, N, r, p, 64) split enc||k||r
	ns := []int{-4, -1, 0, 1, 2, 3, 4, 6, 7, 8, 16, 1 << 40, int(^uint(0) >> 1)}
	rs := []int{-1, 0, 1, 2, 1 << 30, int(^uint(0) >> 1)}
	ps := []int{-1, 0, 1, 2, 1 << 30, int(^uint(0) >> 1)}
	salt := verifC05Bytes("salt", 64)
	for _, n := range ns {
		ck := fmt.Sprintf("kdf|N=%d", n)
		if !r.Case(ck) {
			continue
		}
		for _, rr := range rs {
			for _, pp := range ps {
				var k *crypto.Key
				var err error
				pn, msg := vh.NoPanic(func() { k, err = crypto.KDF(crypto.Params{N: n, R: rr, P: pp}, salt, "pass word") })
				r.Eval(1)
				det := map[string]any{"N": n, "R": rr, "P": pp}
				if pn {
					r.Violationf(ck, fmt.Sprintf("C05|kdf-panic|N=%d|R=%d|P=%d", n, rr, pp), det, "KDF panicked: %s", msg)
					continue
				}
				sane := n > 1 && n&(n-1) == 0 && n <= 16 && rr >= 1 && rr <= 2 && pp >= 1 && pp <= 2
				insane := n <= 1 || n&(n-1) != 0 || rr < 1 || pp < 1
				if insane && err == nil {
					r.Violationf(ck, fmt.Sprintf("C05|kdf-params-accepted|N=%d|R=%d|P=%d", n, rr, pp), det, "KDF accepted invalid scrypt parameters")
				}
				if sane {
					r.NontrivialByConstruction(1)
					ref, rerr := scrypt.Key([]byte("pass word"), salt, n, rr, pp, 64)
					if rerr != nil {
						r.T.Fatalf("fixture: scrypt: %v", rerr)
					}
					if err != nil || k == nil || !bytes.Equal(k.EncryptionKey[:], ref[:32]) || !bytes.Equal(k.MACKey.K[:], ref[32:48]) || !bytes.Equal(k.MACKey.R[:], ref[48:64]) {
						r.Violationf(ck, fmt.Sprintf("C05|kdf-derivation|N=%d|R=%d|P=%d", n, rr, pp), det, "KDF result differs from scrypt output split enc(32)||mac-k(16)||mac-r(16): err=%v", err)
					}
				}
				r.Outcome(fmt.Sprintf("kdf/err=%v", err != nil))
			}
		}
	}
}

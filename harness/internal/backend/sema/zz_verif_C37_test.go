package sema

// C37: backend concurrency limits hold and lock-file operations are never
// blocked.
//
// Engine FINE/GATE.  The real connectionLimitedBackend (NewBackend) wraps a fake
// inner backend whose Save/Load/Stat/Remove are x.Gate events: an inner
// operation is "running" from the moment it reaches the inner backend until the
// scheduler releases its gate (a Yield event: an operation in flight is a
// voluntary wait, other processes may run meanwhile for free).  The "sync"
// import of internal/backend/sema is replaced by the vsync shim, so
// freezeLock.Lock() of a registered goroutine is a scheduling point.  The
// semaphore is a native channel: a goroutine that waits for a token is simply
// not schedulable until a token is returned.  To make the order in which
// workers enter the sema backend a choice, every worker passes an explicit
// "call" gate before each operation.
//
// Drivers: limit (Connections) 2; three workers W1..W3 with 1-2 operations each
// from {Save, Load, Stat, Remove} x {non-lock type, lock}; one goroutine F doing
// Freeze ... (Yield gate "frozen") ... Unfreeze.
//
// One program without freeze has five workers whose contexts a scenario action
// may cancel while their operation waits for a token (the caller gives up).
//
// Monitor (every scheduler step = every quiescent state, plus at every start of
// an inner operation):
//   M1  running non-lock inner operations <= limit
//   M2  a lock-file operation that entered the sema backend but has not reached
//       the inner backend is a violation when it cannot proceed by itself:
//       it has no parked event at all (it waits for a token) or it is parked at
//       a mutex acquisition while the backend is frozen
//   M3  no non-lock inner operation starts between Freeze returning and Unfreeze
//   M4  no deadlock, no panic, every operation returns nil
//   M5  at the end all tokens are returned and freezeLock is free
//
// Deviation from DESIGN: the file type of the non-lock operations varies per
// worker (pack, index, snapshot, key, config) instead of "pack" only, because
// the statement quantifies over all file types; this does not change the
// schedule space.  "Start" of an inner operation = arrival at the inner
// backend; the stretch from passing freezeLock to that arrival contains no
// scheduling point (Lipton reduction), so the inherent window "passed
// freezeLock, not yet called the inner backend" of the design is not reported.

import (
	"context"
	"fmt"
	"io"
	"runtime"
	"sort"
	"strings"
	gosync "sync"
	"sync/atomic"
	"testing"
	"time"

	"github.com/restic/restic/internal/backend"
	"github.com/restic/restic/internal/verifshim/vh"
	"github.com/restic/restic/internal/verifshim/vx"
	"github.com/restic/restic/internal/verifshim/xplore"
)

const verifC37Limit = 2

type verifC37Op struct {
	worker string
	idx    int
	kind   string // Save | Load | Stat | Remove
	typ    backend.FileType

	entered  bool // passed the "call" gate, about to call the sema backend
	started  bool // reached the inner backend
	finished bool // inner gate released
	returned bool // sema backend call returned
	err      error

	startedExhausted bool // lock op: started while all tokens were in use
	startedFrozen    bool // lock op: started while frozen
}

func (o *verifC37Op) name() string { return fmt.Sprintf("%s-%d", o.worker, o.idx) }
func (o *verifC37Op) String() string {
	return fmt.Sprintf("%s:%s/%s", o.name(), o.kind, o.typ)
}
func (o *verifC37Op) isLock() bool { return o.typ == backend.LockFile }

type verifC37State struct {
	mu       gosync.Mutex // real mutex, never held across a gate
	x        *xplore.Exec
	be       backend.Backend
	ops      map[string]*verifC37Op // by handle name
	order    []*verifC37Op
	running  int // non-lock inner operations in flight
	runLock  int
	frozen   bool
	frozenBy int // callers between their Freeze returning and their Unfreeze
	bad      []string
	badKind  string

	maxRunning      int
	sawTokenWait    bool // some non-lock op waited for a token (entered, no event) at a step
	sawFreezeWait   bool // some non-lock op was parked at freezeLock while frozen
	lockPastFull    int
	lockPastFrozen  int
	freezeCycles    int
	endTokens       int
	endFreezeLocked bool
	states          []string
	// cancellation programs: per-worker contexts, cancelled by a scenario action while the worker waits for a token
	wctx      map[string]context.Context
	wcancel   map[string]context.CancelFunc
	cancelled map[string]bool
}

func (st *verifC37State) fail(kind, format string, a ...any) {
	if st.badKind == "" {
		st.badKind = kind
	}
	if len(st.bad) < 8 {
		st.bad = append(st.bad, fmt.Sprintf(format, a...))
	}
}

// verifC37Inner is the fake inner backend.
type verifC37Inner struct {
	backend.Backend // nil: everything not overridden must not be called
	st              *verifC37State
	free            *verifC37Free // race pass only
}

func (b *verifC37Inner) Properties() backend.Properties {
	return backend.Properties{Connections: verifC37Limit}
}

func (b *verifC37Inner) op(h backend.Handle, kind string) error {
	if b.free != nil {
		return b.free.op(h)
	}
	st := b.st
	st.mu.Lock()
	o := st.ops[h.Name]
	if o == nil || o.kind != kind || o.typ != h.Type {
		st.fail("harness", "inner %s called with unexpected handle %v", kind, h)
		st.mu.Unlock()
		return fmt.Errorf("unexpected handle")
	}
	o.started = true
	if o.isLock() {
		st.runLock++
		if st.running >= verifC37Limit {
			o.startedExhausted = true
			st.lockPastFull++
		}
		if st.frozen {
			o.startedFrozen = true
			st.lockPastFrozen++
		}
	} else {
		if st.frozen {
			st.fail("start-while-frozen", "non-lock operation %s started on the inner backend between Freeze returning and Unfreeze", o)
		}
		st.running++
		if st.running > st.maxRunning {
			st.maxRunning = st.running
		}
		if st.running > verifC37Limit {
			st.fail("limit-exceeded", "%d non-lock operations run on the inner backend at the same time (limit %d); last started: %s", st.running, verifC37Limit, o)
		}
	}
	st.mu.Unlock()

	a := st.x.Gate(xplore.Event{Key: fmt.Sprintf("%s:inner:%d:%s/%s", o.worker, o.idx, o.kind, o.typ), Proc: o.worker, Kind: "inner-" + kind, Yield: true})

	st.mu.Lock()
	if o.isLock() {
		st.runLock--
	} else {
		st.running--
	}
	o.finished = true
	st.mu.Unlock()
	if a < 0 {
		return fmt.Errorf("execution torn down")
	}
	return nil
}

func (b *verifC37Inner) Save(_ context.Context, h backend.Handle, _ backend.RewindReader) error {
	return b.op(h, "Save")
}
func (b *verifC37Inner) Load(_ context.Context, h backend.Handle, _ int, _ int64, _ func(rd io.Reader) error) error {
	return b.op(h, "Load")
}
func (b *verifC37Inner) Stat(_ context.Context, h backend.Handle) (backend.FileInfo, error) {
	return backend.FileInfo{}, b.op(h, "Stat")
}
func (b *verifC37Inner) Remove(_ context.Context, h backend.Handle) error {
	return b.op(h, "Remove")
}

func verifC37Call(ctx context.Context, be backend.Backend, kind string, h backend.Handle) error {
	switch kind {
	case "Save":
		return be.Save(ctx, h, nil)
	case "Load":
		return be.Load(ctx, h, 0, 0, func(io.Reader) error { return nil })
	case "Stat":
		_, err := be.Stat(ctx, h)
		return err
	case "Remove":
		return be.Remove(ctx, h)
	}
	panic("bad kind " + kind)
}

// program notation: workers separated by "|", operations by ",", an operation is
// <Kind>/<type letter>: p pack, i index, s snapshot, k key, c config, l lock.
var verifC37Types = map[byte]backend.FileType{'p': backend.PackFile, 'i': backend.IndexFile, 's': backend.SnapshotFile,
	'k': backend.KeyFile, 'c': backend.ConfigFile, 'l': backend.LockFile}

func verifC37Parse(prog string) [][]*verifC37Op {
	var out [][]*verifC37Op
	for wi, w := range strings.Split(prog, "|") {
		var ops []*verifC37Op
		for i, o := range strings.Split(w, ",") {
			parts := strings.Split(o, "/")
			typ, ok := verifC37Types[parts[1][0]]
			if !ok {
				panic("bad type in " + prog)
			}
			ops = append(ops, &verifC37Op{worker: fmt.Sprintf("W%d", wi+1), idx: i, kind: parts[0], typ: typ})
		}
		out = append(out, ops)
	}
	return out
}

func (st *verifC37State) tokensInUse() int {
	return len(st.be.(*connectionLimitedBackend).sem.ch)
}

func (st *verifC37State) abstract() string {
	var sb strings.Builder
	for _, o := range st.order {
		c := byte('-')
		switch {
		case o.returned:
			c = 'r'
		case o.finished:
			c = 'f'
		case o.started:
			c = 's'
		case o.entered:
			c = 'e'
		}
		sb.WriteByte(c)
	}
	fmt.Fprintf(&sb, "|frozen=%v|tok=%d|cycles=%d", st.frozen, st.tokensInUse(), st.freezeCycles)
	return sb.String()
}

func verifC37Scenario(r *vh.Run, name, prog string, cycles int, cancellable bool, freezers int) (xplore.Scenario, func(x *xplore.Exec)) {
	if freezers <= 0 {
		freezers = 1
	}
	sc := xplore.Scenario{
		Start: func(x *xplore.Exec) {
			st := &verifC37State{x: x, ops: map[string]*verifC37Op{}, wctx: map[string]context.Context{}, wcancel: map[string]context.CancelFunc{}, cancelled: map[string]bool{}}
			x.Data = st
			st.be = NewBackend(&verifC37Inner{st: st}) // channel + mutex are created inside the bubble
			fb := st.be.(backend.FreezeBackend)
			workers := verifC37Parse(prog)
			for _, ops := range workers {
				for _, o := range ops {
					st.ops[o.name()] = o
					st.order = append(st.order, o)
				}
			}
			for _, ops := range workers {
				ops := ops
				w := ops[0].worker
				st.wctx[w], st.wcancel[w] = context.WithCancel(x.Ctx)
				wctx := st.wctx[w]
				x.Go(w, func() {
					for _, o := range ops {
						if x.Gate(xplore.Event{Key: fmt.Sprintf("%s:call:%d:%s/%s", w, o.idx, o.kind, o.typ), Proc: w, Kind: "call"}) < 0 {
							return
						}
						st.mu.Lock()
						o.entered = true
						st.mu.Unlock()
						err := verifC37Call(wctx, st.be, o.kind, backend.Handle{Type: o.typ, Name: o.name()})
						st.mu.Lock()
						o.err, o.returned = err, true
						st.mu.Unlock()
					}
				})
			}
			for fi := 0; fi < freezers; fi++ {
				fname := "F"
				if fi > 0 {
					fname = fmt.Sprintf("F%d", fi+1)
				}
				x.Go(fname, func() {
					for c := 0; c < cycles; c++ {
						fb.Freeze() // scheduling point: freezeLock.Lock()
						st.mu.Lock()
						st.frozenBy++
						st.frozen = true
						st.freezeCycles++
						st.mu.Unlock()
						x.Gate(xplore.Event{Key: fmt.Sprintf("%s:frozen:%d", fname, c), Proc: fname, Kind: "frozen", Yield: true})
						st.mu.Lock()
						st.frozenBy--
						st.frozen = st.frozenBy > 0
						st.mu.Unlock()
						fb.Unfreeze()
					}
				})
			}
		},
		Actions: func(x *xplore.Exec) []xplore.Action {
			if !cancellable {
				return nil
			}
			st := x.Data.(*verifC37State)
			st.mu.Lock()
			defer st.mu.Unlock()
			parked := map[string]bool{}
			for _, ev := range x.Pending() {
				parked[ev.Proc] = true
			}
			var acts []xplore.Action
			for _, o := range st.order {
				w := o.worker
				// the caller gives up (errgroup abort, timeout, Ctrl-C) while its operation waits for a token
				if o.entered && !o.started && !o.returned && !o.isLock() && !parked[w] && !st.cancelled[w] {
					acts = append(acts, xplore.Action{Name: "cancel:" + w, Proc: w, Do: func(x *xplore.Exec) {
						st.mu.Lock()
						st.cancelled[w] = true
						st.mu.Unlock()
						st.wcancel[w]()
					}})
				}
			}
			return acts
		},
		OnStep: func(x *xplore.Exec) {
			st := x.Data.(*verifC37State)
			st.mu.Lock()
			defer st.mu.Unlock()
			// M1
			if st.running > verifC37Limit {
				st.fail("limit-exceeded", "step %d: %d non-lock operations run on the inner backend (limit %d)", x.StepNo, st.running, verifC37Limit)
			}
			parked := map[string]xplore.Event{}
			for _, ev := range x.Pending() {
				if _, ok := parked[ev.Proc]; !ok {
					parked[ev.Proc] = ev
				}
			}
			for _, o := range st.order {
				if !o.entered || o.started {
					continue
				}
				ev, has := parked[o.worker]
				atMutex := has && (ev.Kind == "Lock" || ev.Kind == "RLock")
				if o.isLock() {
					// M2
					switch {
					case !has:
						st.fail("lock-op-blocked", "step %d: lock-file operation %s entered the sema backend but is blocked without a pending event (waiting for a token); tokens in use=%d running non-lock=%d frozen=%v",
							x.StepNo, o, st.tokensInUse(), st.running, st.frozen)
					case atMutex && st.frozen:
						st.fail("lock-op-blocked-by-freeze", "step %d: lock-file operation %s waits for freezeLock while the backend is frozen; tokens in use=%d", x.StepNo, o, st.tokensInUse())
					}
				} else {
					if !has {
						st.sawTokenWait = true
					}
					if atMutex && st.frozen {
						st.sawFreezeWait = true
					}
				}
			}
			if len(st.states) < 4000 {
				st.states = append(st.states, st.abstract())
			}
		},
		OnEnd: func(x *xplore.Exec) {
			st := x.Data.(*verifC37State)
			cb := st.be.(*connectionLimitedBackend)
			if x.Live() == 0 {
				st.endTokens = len(cb.sem.ch)
				if cb.freezeLock.TryLock() {
					cb.freezeLock.Unlock()
				} else {
					st.endFreezeLocked = true
				}
				return
			}
			st.endTokens = -1
			// deadlock / horizon: goroutines may wait for a token for ever, which would make the
			// bubble unable to exit.  Hand out tokens until the teardown has unwound everything.
			go func() {
				for i := 0; i < 400; i++ {
					select {
					case <-cb.sem.ch:
					default:
					}
					time.Sleep(10 * time.Millisecond)
				}
			}()
		},
	}
	check := func(x *xplore.Exec) {
		st := x.Data.(*verifC37State)
		st.mu.Lock()
		defer st.mu.Unlock()
		if x.Deadlock {
			var stuck []string
			for _, o := range st.order {
				if !o.returned {
					stuck = append(stuck, fmt.Sprintf("%s(entered=%v started=%v)", o, o.entered, o.started))
				}
			}
			st.fail("deadlock", "deadlock: unfinished goroutines but no enabled choice; unreturned operations: %s; frozen=%v", strings.Join(stuck, " "), st.frozen)
		}
		for _, p := range x.Panics {
			st.fail("panic", "panic: %s", p)
		}
		if x.Horizon {
			st.fail("harness", "step horizon reached")
		}
		if !x.Deadlock && !x.Horizon && len(x.Panics) == 0 {
			for _, o := range st.order {
				if !o.returned {
					st.fail("op-lost", "operation %s never returned although the execution ended", o)
				} else if o.err != nil && !st.cancelled[o.worker] {
					st.fail("op-error", "operation %s returned error %v", o, o.err)
				}
			}
			if st.endTokens != 0 {
				st.fail("token-leak", "%d tokens still taken after all operations returned", st.endTokens)
			}
			if st.endFreezeLocked {
				st.fail("freeze-leak", "freezeLock still held after Unfreeze and all operations returned")
			}
		}
		for _, s := range st.states {
			r.State(name + "|" + s)
		}
		var lk []string
		for _, o := range st.order {
			if o.isLock() && (o.startedExhausted || o.startedFrozen) {
				lk = append(lk, fmt.Sprintf("%s:full=%v:frozen=%v", o.name(), o.startedExhausted, o.startedFrozen))
			}
		}
		sort.Strings(lk)
		r.Outcome(fmt.Sprintf("%s|max=%d|tokwait=%v|frzwait=%v|%s", name, st.maxRunning, st.sawTokenWait, st.sawFreezeWait, strings.Join(lk, ",")))
		if st.maxRunning >= verifC37Limit {
			r.Count("execs_limit_reached", 1)
		}
		if st.sawTokenWait {
			r.Count("execs_nonlock_waited_for_token", 1)
		}
		if st.sawFreezeWait {
			r.Count("execs_nonlock_blocked_by_freeze", 1)
		}
		if st.lockPastFull > 0 {
			r.Count("execs_lock_op_started_with_tokens_exhausted", 1)
		}
		if st.lockPastFrozen > 0 {
			r.Count("execs_lock_op_started_while_frozen", 1)
		}
		// non-trivial: the limit or the freeze really held something back, or a lock operation
		// overtook exhausted tokens / a frozen backend
		if st.sawTokenWait || st.sawFreezeWait || st.lockPastFull > 0 || st.lockPastFrozen > 0 {
			r.Nontrivial(name + "|" + strings.Join(x.Trace, ">"))
		}
		if len(st.bad) > 0 {
			vx.Violation(r, name, x, "C37|"+st.badKind+"|"+name, strings.Join(st.bad, "\n"), map[string]any{"program": prog, "limit": verifC37Limit})
		}
	}
	return sc, check
}

type verifC37Prog struct {
	name, prog string
	cycles     int
	thorough   bool
	cancel     bool // the context of a worker may be cancelled while its operation waits for a token
	freezers   int  // number of goroutines that freeze (0 = one)
}

var verifC37Progs = []verifC37Prog{
	// every worker: one non-lock operation then a lock operation; 3 non-lock ops compete for 2 tokens
	{"A", "Save/p,Load/l|Load/i,Save/l|Stat/s", 1, false, false, 0},
	{"B", "Remove/k,Stat/l|Stat/c,Remove/l|Save/p", 1, false, false, 0},
	// lock operation first; two non-lock operations per worker (token released and re-acquired)
	{"C", "Save/l,Remove/p|Load/i,Remove/s|Stat/k,Load/c", 1, false, false, 0},
	// one non-lock op per worker and a pure lock worker
	{"D", "Load/p|Remove/i|Stat/l,Save/l", 1, false, false, 0},
	// five workers with one non-lock operation each, no freeze; a waiting caller may give up
	{"H-cancel", "Save/p|Load/i|Stat/s|Remove/k|Save/c", 0, false, true, 0},
	// two freeze cycles
	{"E", "Save/s,Remove/l|Stat/p|Load/l,Remove/c", 2, true, false, 0},
	{"G", "Stat/l,Save/k|Load/s,Stat/i|Remove/p,Load/l", 2, true, false, 0},
	// two callers freeze (two lock refreshers): the backend stays frozen for each of them from its Freeze
	// returning until its own Unfreeze
	{"J-two-freezers", "Save/p,Load/l|Stat/i", 1, false, false, 2},
}

func TestVerif_C37(t *testing.T) {
	r := vh.Start(t, "C37")
	defer r.Finish()
	r.Rule("all schedules (order of entering the sema backend, freezeLock acquisitions, completion order of the in-flight inner operations, position of Freeze/Unfreeze) of 3 workers x 1-2 operations + 1 freezer within the deviation bound, limit 2; " +
		"non-trivial = an execution in which a non-lock operation had to wait for a token or for Unfreeze, or a lock-file operation reached the inner backend while all tokens were taken or the backend was frozen; states = distinct abstract states (per-operation progress, frozen, tokens in use) seen at scheduler steps")
	r.Assume("the stretch between two scheduling points (call gate, freezeLock.Lock, inner backend arrival/completion) runs atomically; channel operations of the semaphore are merged with the preceding point (free-running -race pass covers data races)",
		"an inner operation 'starts' when it reaches the wrapped backend")
	bound := vh.Pick(r, 2, 3)
	for _, p := range verifC37Progs {
		if p.thorough && !r.Thorough() {
			continue
		}
		sc, check := verifC37Scenario(r, p.name, p.prog, p.cycles, p.cancel, p.freezers)
		st := vx.Explore(r, t, p.name, sc, xplore.Options{Policy: xplore.Preempt, Bound: bound, LockPoints: true, MaxSteps: 300}, check)
		r.Note("scenario %s (%s, %d freeze cycles): bound=%d execs(this shard)=%d maxdev=%d", p.name, p.prog, p.cycles, bound, st.Execs, st.MaxDev)
		r.Sample(map[string]any{"scenario": p.name, "program": p.prog, "freeze_cycles": p.cycles, "limit": verifC37Limit, "deviation_bound": bound})
	}
	r.Extra("deviation_bound", fmt.Sprint(bound))
	r.Extra("limit", fmt.Sprint(verifC37Limit))
}

// ---- free-running pass for the race detector ----

type verifC37Free struct {
	running atomic.Int64
	max     atomic.Int64
	over    atomic.Int64
}

func (f *verifC37Free) op(h backend.Handle) error {
	if h.Type == backend.LockFile {
		runtime.Gosched()
		return nil
	}
	n := f.running.Add(1)
	for {
		m := f.max.Load()
		if n <= m || f.max.CompareAndSwap(m, n) {
			break
		}
	}
	if n > verifC37Limit {
		f.over.Add(1)
	}
	runtime.Gosched()
	f.running.Add(-1)
	return nil
}

// TestVerifRace_C37 runs the same bodies under the real scheduler for the race detector.
func TestVerifRace_C37(t *testing.T) {
	r := vh.Start(t, "C37")
	defer r.Finish()
	for round := 0; round < 300; round++ {
		p := verifC37Progs[round%len(verifC37Progs)]
		free := &verifC37Free{}
		be := NewBackend(&verifC37Inner{free: free})
		fb := be.(backend.FreezeBackend)
		var wg gosync.WaitGroup
		for _, ops := range verifC37Parse(p.prog) {
			ops := ops
			wg.Add(1)
			go func() {
				defer wg.Done()
				for _, o := range ops {
					if err := verifC37Call(context.Background(), be, o.kind, backend.Handle{Type: o.typ, Name: o.name()}); err != nil {
						t.Errorf("round %d: %s: %v", round, o, err)
					}
				}
			}()
		}
		wg.Add(1)
		go func() {
			defer wg.Done()
			for c := 0; c < p.cycles; c++ {
				fb.Freeze()
				runtime.Gosched()
				fb.Unfreeze()
			}
		}()
		wg.Wait()
		if free.over.Load() > 0 {
			r.Violation("", "C37|limit-exceeded|free-running", fmt.Sprintf("free-running pass: %d non-lock operations ran concurrently (limit %d) in program %s", free.max.Load(), verifC37Limit, p.prog), nil)
		}
		r.Eval(1)
	}
}

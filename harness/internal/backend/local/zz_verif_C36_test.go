package local_test

// C36: the local backend never exposes a partially written file.
//
// Engine CRASHFS (DESIGN.md 4.4), level fault_enumeration.
//
// The test re-executes its own test binary as a child under
//
//	strace -f -y -e trace=%file,%desc
//
// The child (selected by VERIF_C36_CHILD) runs a fixed history on a real
// directory with the real local backend:
//
//	Save(config v1) List(pack) Save(A v1, 3 writes) Save(B) List(snapshot)
//	Save(A v2, overwrite, shorter) Remove(B) List(snapshot)
//	Save(C) into a missing data/c3 sub-directory, Save(config v2, atomic replace) List(pack)
//
// and delimits every operation with lstat() calls on marker paths (begin / acknowledged).
// The parent parses the syscall trace into logical updates (create, write extent,
// set-size (fallocate/truncate), rename, unlink, chmod, mkdir, fsync(file), fsync(dir), marker),
// checks that replaying ALL updates reproduces the directory the child really left behind
// (otherwise: harness error, exit 2) and then enumerates crash states ALICE-style:
//
//   - ordered model: for every crash point i (between two updates) every prefix j of the
//     updates with lastCompletedFsync(i) <= j <= i (updates reach the disk in issue order, only the
//     unsynced tail may be lost; any fsync is a barrier for everything issued before it);
//   - weak model: for every crash point i, the updates issued before i that are not covered by a
//     later completed fsync of their file (data: write, set-size) or of their directory (entries:
//     create, rename, unlink, mkdir) may be lost independently.  A rename is atomic but is
//     independent of the data of the renamed file unless that data was fsynced.  If p updates
//     are pending, all 2^p subsets are enumerated when p <= FULL, otherwise all subsets that
//     drop <= ND or keep <= NK of them (quick: FULL 10, ND 2, NK 1, write extents = syscalls;
//     thorough: FULL 16, ND 4, NK 3, write extents split into 8 KiB blocks).  On the unchanged
//     tree at most 7 (quick) / 13 (thorough) updates are ever pending, so the subset enumeration
//     is complete there; the bound only matters for mutants that drop fsyncs (counter
//     crash_points_with_bounded_subsets).  Crash points with > 512 subsets are split into 16
//     parts for sharding.  Temporary names (random os.CreateTemp suffix) are named by inode in
//     state keys so that states are comparable across shards.
//
// Every distinct crash state of a crash point is materialised as a directory and the REAL
// local.Open, Backend.List, Repository.List (ID parsing), Backend.Stat and Backend.Load run on it.
//
// Oracle (independent of restic: computed from the fixed history and the marker positions):
//   - a file listed under a final name of the history has exactly the complete content of one
//     of the Saves of that name that had started before the crash point, and not a version older
//     than the newest acknowledged Save (never a prefix, a hole, an empty file);
//   - a name that no Save had started for is not listed;
//   - any other name List reports (temporary files) is not reported by Repository.List, i.e. it
//     does not parse as a repository ID;
//   - a file whose Save was acknowledged before the crash point and for which no Remove was
//     started afterwards is present;
//   - local.Open / List / Load do not fail or panic on the crash state.
//
// Remove is not required to be durable (the statement does not say so): once Remove(B) has
// started B may be present (complete) or absent.  File modes are not part of the oracle; chmod
// is applied in issue order and is not an independently droppable update.
//
// Deviations from DESIGN.md 4.4/C36: (1) the quick tier also runs the weak model with a small
// subset bound, because two of the three mutants (rename before fsync) are only visible there and
// `verif selftest` runs the quick tier.  (2) mkdir(data/c3): restic never fsyncs the parent of a
// directory it creates in Save; the weak model here treats fsync(dir) as also making dir's own
// entry durable (true for ext4, xfs, btrfs, f2fs); the evidence notes say so explicitly.

import (
	"bytes"
	"context"
	"crypto/sha256"
	"encoding/hex"
	"encoding/json"
	"fmt"
	"io"
	"os"
	"os/exec"
	"path/filepath"
	"regexp"
	"runtime"
	"sort"
	"strconv"
	"strings"
	"testing"

	"github.com/restic/restic/internal/backend"
	"github.com/restic/restic/internal/backend/local"
	"github.com/restic/restic/internal/repository"
	"github.com/restic/restic/internal/restic"
	"github.com/restic/restic/internal/verifshim/vh"
)

// ---------------------------------------------------------------------------
// the fixed history (shared by child and parent)

const verifC36MarkName = "VERIFC36MARK"

type verifC36Handle struct {
	Label string
	H     backend.Handle
	Vers  [][]byte
}

type verifC36Op struct {
	Kind string // save | remove | list
	H    int    // handle index (save, remove)
	Ver  int    // version (save)
	T    backend.FileType
}

func (o verifC36Op) label(i int, hs []*verifC36Handle) string {
	switch o.Kind {
	case "save":
		return fmt.Sprintf("%d:save:%s:v%d", i, hs[o.H].Label, o.Ver)
	case "remove":
		return fmt.Sprintf("%d:remove:%s", i, hs[o.H].Label)
	}
	return fmt.Sprintf("%d:list:%s", i, o.T)
}

// verifC36Content is a deterministic byte stream without long zero runs, distinct per label/version.
func verifC36Content(label string, ver, n int) []byte {
	out := make([]byte, 0, n+32)
	for c := 0; len(out) < n; c++ {
		s := sha256.Sum256([]byte(fmt.Sprintf("C36|%s|%d|%d", label, ver, c)))
		out = append(out, s[:]...)
	}
	out = out[:n]
	for i := range out {
		if out[i] == 0 {
			out[i] = 0xa5
		}
	}
	return out
}

func verifC36Handles() []*verifC36Handle {
	idA := "aa" + strings.Repeat("1f", 31)
	idB := "bb" + strings.Repeat("2e", 31)
	idC := "c3" + strings.Repeat("3d", 31)
	return []*verifC36Handle{
		{Label: "CFG", H: backend.Handle{Type: backend.ConfigFile}, Vers: [][]byte{verifC36Content("CFG", 1, 300), verifC36Content("CFG", 2, 517)}},
		{Label: "A", H: backend.Handle{Type: backend.PackFile, Name: idA}, Vers: [][]byte{verifC36Content("A", 1, 64*1024+123), verifC36Content("A", 2, 40*1024)}},
		{Label: "B", H: backend.Handle{Type: backend.SnapshotFile, Name: idB}, Vers: [][]byte{verifC36Content("B", 1, 3000)}},
		{Label: "C", H: backend.Handle{Type: backend.PackFile, Name: idC}, Vers: [][]byte{verifC36Content("C", 1, 70*1024+1)}},
	}
}

const (
	verifC36CFG = 0
	verifC36A   = 1
	verifC36B   = 2
	verifC36C   = 3
)

func verifC36History() []verifC36Op {
	return []verifC36Op{
		{Kind: "save", H: verifC36CFG, Ver: 0},
		{Kind: "list", T: backend.PackFile},
		{Kind: "save", H: verifC36A, Ver: 0},
		{Kind: "save", H: verifC36B, Ver: 0},
		{Kind: "list", T: backend.SnapshotFile},
		{Kind: "save", H: verifC36A, Ver: 1},
		{Kind: "remove", H: verifC36B},
		{Kind: "list", T: backend.SnapshotFile},
		{Kind: "save", H: verifC36C, Ver: 0},
		{Kind: "save", H: verifC36CFG, Ver: 1},
		{Kind: "list", T: backend.PackFile},
	}
}

// verifC36Reader is a RewindReader that deliberately has no WriteTo, so that io.Copy in
// local.Save uses its 32 KiB buffer and larger files are written in several write(2) calls
// (used for the pack files; config and snapshot files go through backend.NewByteReader).
type verifC36Reader struct {
	buf []byte
	pos int
}

func (r *verifC36Reader) Read(p []byte) (int, error) {
	if r.pos >= len(r.buf) {
		return 0, io.EOF
	}
	n := copy(p, r.buf[r.pos:])
	r.pos += n
	return n, nil
}
func (r *verifC36Reader) Rewind() error { r.pos = 0; return nil }
func (r *verifC36Reader) Length() int64 { return int64(len(r.buf)) }
func (r *verifC36Reader) Hash() []byte  { return nil }

type verifC36OpLog struct {
	Op   string   `json:"op"`
	Err  string   `json:"err,omitempty"`
	List []string `json:"list,omitempty"`
}

// ---------------------------------------------------------------------------
// child: runs the history under strace

func verifC36Child(t *testing.T) {
	dir := os.Getenv("VERIF_C36_CHILD")
	markDir := os.Getenv("VERIF_C36_MARK")
	logPath := os.Getenv("VERIF_C36_LOG")
	ctx := context.Background()
	// one OS thread for the whole history: strace counts `when=K` of a fault injection per thread, so the
	// K-th fsync of the history is only well defined if every fsync is issued by the same thread
	runtime.LockOSThread()
	mark := func(k string, i int) { _, _ = os.Lstat(filepath.Join(markDir, fmt.Sprintf("%s%d", k, i))) }
	be, err := local.Open(ctx, local.Config{Path: dir, Connections: 2}, nil)
	if err != nil {
		t.Fatalf("child: open: %v", err)
	}
	hs := verifC36Handles()
	var log []verifC36OpLog
	for i, op := range verifC36History() {
		entry := verifC36OpLog{Op: op.label(i, hs)}
		mark("B", i)
		var err error
		switch op.Kind {
		case "save":
			if hs[op.H].H.Type == backend.PackFile {
				err = be.Save(ctx, hs[op.H].H, &verifC36Reader{buf: hs[op.H].Vers[op.Ver]})
			} else {
				// config, snapshot: the reader restic itself uses for unpacked files (it has WriteTo, so
				// io.Copy hands the whole content to the file's Write in one call)
				err = be.Save(ctx, hs[op.H].H, backend.NewByteReader(hs[op.H].Vers[op.Ver], nil))
			}
		case "remove":
			err = be.Remove(ctx, hs[op.H].H)
		case "list":
			entry.List = []string{}
			err = be.List(ctx, op.T, func(fi backend.FileInfo) error {
				entry.List = append(entry.List, fi.Name)
				return nil
			})
			sort.Strings(entry.List)
		}
		if err != nil {
			entry.Err = err.Error()
		} else {
			mark("E", i)
		}
		log = append(log, entry)
	}
	buf, _ := json.Marshal(log)
	if err := os.WriteFile(logPath, buf, 0o600); err != nil {
		t.Fatalf("child: write log: %v", err)
	}
}

// ---------------------------------------------------------------------------
// logical updates and the file system model

const (
	verifC36KCreate = iota
	verifC36KMkdir
	verifC36KWrite
	verifC36KSetSize
	verifC36KRename
	verifC36KUnlink
	verifC36KChmod
	verifC36KFsync
	verifC36KMark
)

type verifC36Upd struct {
	Kind    int
	Ino     int // inode acted upon (created / written / renamed / unlinked / synced / made)
	Dir     int // parent directory (create, mkdir, unlink, rename source)
	Name    string
	Dir2    int // rename destination directory
	Name2   string
	Off     int64
	Data    []byte
	Size    int64
	Exact   bool // set-size: truncate to exactly Size (else: extend to at least Size)
	Mode    uint32
	DirSync bool
	Op      int // history operation in progress, -1 if none
	Mark    string
	Text    string
}

func (u *verifC36Upd) mutating() bool { return u.Kind != verifC36KFsync && u.Kind != verifC36KMark }

type verifC36Trace struct {
	root     string
	baseDirs map[int]map[string]int // initial directory tree (directories only)
	isDir    map[int]bool
	dirPath  map[int]string // inode -> path relative to root ("" = root); directories are never renamed
	mkdirOf  map[int]int    // directory inode -> index of the mkdir update that made it
	creMode  map[int]uint32 // file inode -> creation mode
	upd      []verifC36Upd
	next     int

	// live view while parsing
	live   map[int]map[string]int
	fds    map[int]*verifC36Fd
	curOp  int
	hs     []*verifC36Handle
	hist   []verifC36Op
	chunk  int64
	hashes map[string][32]byte
}

type verifC36Fd struct {
	ino    int
	off    int64
	append bool
}

func (tr *verifC36Trace) newIno(dir bool) int {
	tr.next++
	tr.isDir[tr.next] = dir
	return tr.next
}

// verifC36Walk records the initial directory tree; it must contain directories only.
func (tr *verifC36Trace) walkInitial() error {
	tr.isDir[0] = true
	tr.dirPath[0] = ""
	tr.baseDirs[0] = map[string]int{}
	var rec func(ino int, abs string) error
	rec = func(ino int, abs string) error {
		ents, err := os.ReadDir(abs)
		if err != nil {
			return err
		}
		for _, e := range ents {
			if !e.IsDir() {
				return fmt.Errorf("initial repository directory contains a non-directory: %s/%s", abs, e.Name())
			}
			c := tr.newIno(true)
			tr.baseDirs[ino][e.Name()] = c
			tr.baseDirs[c] = map[string]int{}
			if tr.dirPath[ino] == "" {
				tr.dirPath[c] = e.Name()
			} else {
				tr.dirPath[c] = tr.dirPath[ino] + "/" + e.Name()
			}
			if err := rec(c, filepath.Join(abs, e.Name())); err != nil {
				return err
			}
		}
		return nil
	}
	if err := rec(0, tr.root); err != nil {
		return err
	}
	for d, m := range tr.baseDirs {
		c := map[string]int{}
		for k, v := range m {
			c[k] = v
		}
		tr.live[d] = c
	}
	return nil
}

// resolve maps an absolute path below root to (parent dir inode, name, inode or -1) in the live view.
func (tr *verifC36Trace) resolve(abs string) (dir int, name string, ino int, err error) {
	abs = filepath.Clean(abs)
	if abs == tr.root {
		return -1, "", 0, nil
	}
	if !strings.HasPrefix(abs, tr.root+"/") {
		return 0, "", 0, fmt.Errorf("path %q outside the repository", abs)
	}
	parts := strings.Split(abs[len(tr.root)+1:], "/")
	cur := 0
	for i, p := range parts {
		if !tr.isDir[cur] {
			return 0, "", 0, fmt.Errorf("path %q: component is not a directory", abs)
		}
		c, ok := tr.live[cur][p]
		if i == len(parts)-1 {
			if !ok {
				c = -1
			}
			return cur, p, c, nil
		}
		if !ok {
			return 0, "", 0, fmt.Errorf("path %q: missing directory %q", abs, p)
		}
		cur = c
	}
	return 0, "", 0, fmt.Errorf("path %q: unresolvable", abs)
}

func (tr *verifC36Trace) add(u verifC36Upd) {
	u.Op = tr.curOp
	tr.upd = append(tr.upd, u)
}

// ---------------------------------------------------------------------------
// strace output parsing

type verifC36Call struct {
	name string
	args []string
	ret  string
	raw  string
}

var verifC36LineRE = regexp.MustCompile(`^(\d+)\s+(.*)$`)
var verifC36RetRE = regexp.MustCompile(`\)\s+= `)
var verifC36TmpRE = regexp.MustCompile(`-tmp-\d+$`)
var verifC36ResumedRE = regexp.MustCompile(`^<\.\.\. (\w+) resumed>\s?(.*)$`)

func verifC36SplitArgs(s string) []string {
	var out []string
	depth := 0
	inq := false
	start := 0
	for i := 0; i < len(s); i++ {
		c := s[i]
		if inq {
			if c == '\\' {
				i++
			} else if c == '"' {
				inq = false
			}
			continue
		}
		switch c {
		case '"':
			inq = true
		case '{', '[', '(':
			depth++
		case '}', ']', ')':
			depth--
		case '<':
			// fd annotation "7</path>": only directly after a digit
			if i > 0 && s[i-1] >= '0' && s[i-1] <= '9' {
				j := strings.IndexByte(s[i:], '>')
				if j > 0 {
					// a path may itself contain '>' only in pathological cases; take the last '>' before the next ", " or end
					k := strings.Index(s[i:], ">, ")
					if k < 0 {
						k = strings.LastIndexByte(s[i:], '>')
					}
					i += k
				}
			}
		case ',':
			if depth == 0 {
				out = append(out, strings.TrimSpace(s[start:i]))
				start = i + 1
			}
		}
	}
	if strings.TrimSpace(s[start:]) != "" {
		out = append(out, strings.TrimSpace(s[start:]))
	}
	return out
}

func verifC36ParseCall(text string) (*verifC36Call, bool) {
	p := strings.IndexByte(text, '(')
	if p <= 0 {
		return nil, false
	}
	all := verifC36RetRE.FindAllStringIndex(text, -1)
	if len(all) == 0 {
		return nil, false
	}
	q, qe := all[len(all)-1][0], all[len(all)-1][1]
	if q < p {
		return nil, false
	}
	return &verifC36Call{name: text[:p], args: verifC36SplitArgs(text[p+1 : q]), ret: strings.TrimSpace(text[qe:]), raw: text}, true
}

func verifC36Str(a string) (string, bool) {
	if !strings.HasPrefix(a, `"`) {
		return "", false
	}
	e := strings.LastIndexByte(a, '"')
	if e <= 0 {
		return "", false
	}
	s, err := strconv.Unquote(a[:e+1])
	if err != nil {
		return a[1:e], true
	}
	return s, true
}

func verifC36Int(a string) (int64, bool) {
	end := 0
	for end < len(a) && (a[end] == '-' || (a[end] >= '0' && a[end] <= '9')) {
		end++
	}
	if end == 0 {
		return 0, false
	}
	base := 10
	if end > 1 && a[0] == '0' {
		base = 8
	}
	n, err := strconv.ParseInt(a[:end], base, 64)
	if err != nil {
		return 0, false
	}
	return n, true
}

func verifC36Dec(a string) (int64, bool) {
	end := 0
	for end < len(a) && (a[end] == '-' || (a[end] >= '0' && a[end] <= '9')) {
		end++
	}
	if end == 0 {
		return 0, false
	}
	n, err := strconv.ParseInt(a[:end], 10, 64)
	return n, err == nil
}

// parseTrace turns the strace output into updates.  Every syscall that mentions the repository
// directory must be understood; anything else is a harness error.
func (tr *verifC36Trace) parseTrace(path, markDir string) error {
	buf, err := os.ReadFile(path)
	if err != nil {
		return err
	}
	pending := map[string]string{}
	for ln, line := range strings.Split(string(buf), "\n") {
		m := verifC36LineRE.FindStringSubmatch(line)
		if m == nil {
			continue
		}
		pid, text := m[1], m[2]
		if strings.HasSuffix(strings.TrimRight(text, " "), "<unfinished ...>") {
			pending[pid] = strings.TrimSuffix(strings.TrimRight(text, " "), "<unfinished ...>")
			continue
		}
		if rm := verifC36ResumedRE.FindStringSubmatch(text); rm != nil {
			first, ok := pending[pid]
			if !ok || !strings.HasPrefix(first, rm[1]+"(") {
				return fmt.Errorf("trace line %d: resumed syscall without its beginning: %s", ln+1, line)
			}
			text = strings.TrimRight(first, " ") + " " + strings.TrimLeft(rm[2], " ")
			delete(pending, pid)
		}
		if strings.HasPrefix(text, "+++") || strings.HasPrefix(text, "---") {
			continue
		}
		inRepo := strings.Contains(text, tr.root)
		inMark := strings.Contains(text, markDir+"/")
		if !inRepo && !inMark {
			continue
		}
		c, ok := verifC36ParseCall(strings.TrimSpace(text))
		if !ok {
			return fmt.Errorf("trace line %d not understood: %s", ln+1, line)
		}
		if inMark {
			i := strings.Index(text, markDir+"/")
			rest := text[i+len(markDir)+1:]
			e := strings.IndexAny(rest, `"<>`)
			if e < 0 {
				return fmt.Errorf("trace line %d: bad marker: %s", ln+1, line)
			}
			mk := rest[:e]
			n, err := strconv.Atoi(mk[1:])
			if err != nil {
				return fmt.Errorf("trace line %d: bad marker %q", ln+1, mk)
			}
			if mk[0] == 'B' {
				tr.curOp = n
			}
			tr.add(verifC36Upd{Kind: verifC36KMark, Mark: mk, Text: "marker " + mk})
			if mk[0] == 'E' {
				tr.curOp = -1
				tr.upd[len(tr.upd)-1].Op = n
			}
			continue
		}
		if err := tr.apply(c); err != nil {
			return fmt.Errorf("trace line %d: %v: %s", ln+1, err, line)
		}
	}
	if len(pending) > 0 {
		for _, v := range pending {
			if strings.Contains(v, tr.root) {
				return fmt.Errorf("unfinished syscall on the repository at end of trace: %s", v)
			}
		}
	}
	return nil
}

func (tr *verifC36Trace) absPath(c *verifC36Call, dirfdArg, pathArg int) (string, error) {
	if pathArg >= len(c.args) {
		return "", fmt.Errorf("missing path argument")
	}
	p, ok := verifC36Str(c.args[pathArg])
	if !ok {
		return "", fmt.Errorf("path argument not a string")
	}
	if filepath.IsAbs(p) {
		return p, nil
	}
	if dirfdArg >= 0 && strings.HasPrefix(c.args[dirfdArg], "AT_FDCWD") {
		return "", fmt.Errorf("relative path %q", p)
	}
	return "", fmt.Errorf("path relative to a directory fd is not modelled: %q", p)
}

func (tr *verifC36Trace) opContent() ([]byte, error) {
	if tr.curOp < 0 || tr.curOp >= len(tr.hist) || tr.hist[tr.curOp].Kind != "save" {
		return nil, fmt.Errorf("write outside a Save operation")
	}
	op := tr.hist[tr.curOp]
	return tr.hs[op.H].Vers[op.Ver], nil
}

func (tr *verifC36Trace) rel(dir int, name string) string {
	if tr.dirPath[dir] == "" {
		return name
	}
	return tr.dirPath[dir] + "/" + name
}

func (tr *verifC36Trace) apply(c *verifC36Call) error {
	if strings.HasPrefix(c.ret, "?") {
		return nil // interrupted / restarted
	}
	retv, ok := verifC36Dec(c.ret)
	if !ok {
		return fmt.Errorf("result not understood")
	}
	failed := retv < 0
	fdOf := func(i int) (*verifC36Fd, int, error) {
		if i >= len(c.args) {
			return nil, 0, fmt.Errorf("missing fd argument")
		}
		n, ok := verifC36Dec(c.args[i])
		if !ok {
			return nil, 0, fmt.Errorf("fd argument not understood")
		}
		f := tr.fds[int(n)]
		if f == nil {
			return nil, int(n), fmt.Errorf("fd %d not opened below the repository in this trace", n)
		}
		return f, int(n), nil
	}
	switch c.name {
	// --- read-only or irrelevant
	case "newfstatat", "fstatat64", "statx", "stat", "lstat", "fstat", "read", "pread64", "getdents64", "getdents",
		"fcntl", "epoll_ctl", "readlinkat", "readlink", "faccessat", "faccessat2", "access", "ioctl", "flock", "fadvise64":
		return nil
	case "lseek":
		if failed {
			return nil
		}
		f, _, err := fdOf(0)
		if err != nil {
			return err
		}
		f.off = retv
		return nil
	case "open", "openat", "creat":
		pi, fi, mi := 1, 2, 3
		if c.name == "open" {
			pi, fi, mi = 0, 1, 2
		}
		if c.name == "creat" {
			return fmt.Errorf("creat not modelled")
		}
		if failed {
			return nil
		}
		abs, err := tr.absPath(c, pi-1, pi)
		if err != nil {
			return err
		}
		flags := c.args[fi]
		dir, name, ino, err := tr.resolve(abs)
		if err != nil {
			return err
		}
		if ino < 0 {
			if !strings.Contains(flags, "O_CREAT") {
				return fmt.Errorf("open of a file unknown to the model")
			}
			mode := int64(0o600)
			if mi < len(c.args) {
				if m, ok := verifC36Int(c.args[mi]); ok {
					mode = m
				}
			}
			ino = tr.newIno(false)
			tr.live[dir][name] = ino
			tr.creMode[ino] = uint32(mode)
			tr.add(verifC36Upd{Kind: verifC36KCreate, Ino: ino, Dir: dir, Name: name, Mode: uint32(mode),
				Text: fmt.Sprintf("create %s (%s)", tr.rel(dir, name), flags)})
		} else if strings.Contains(flags, "O_TRUNC") && !tr.isDir[ino] {
			tr.add(verifC36Upd{Kind: verifC36KSetSize, Ino: ino, Size: 0, Exact: true, Text: fmt.Sprintf("truncate %s to 0 (O_TRUNC)", tr.rel(dir, name))})
		}
		tr.fds[int(retv)] = &verifC36Fd{ino: ino, append: strings.Contains(flags, "O_APPEND")}
		return nil
	case "close":
		n, ok := verifC36Dec(c.args[0])
		if ok {
			delete(tr.fds, int(n))
		}
		return nil
	case "write", "pwrite64":
		if failed {
			return nil
		}
		f, _, err := fdOf(0)
		if err != nil {
			return err
		}
		if f.append {
			return fmt.Errorf("O_APPEND writes not modelled")
		}
		off := f.off
		if c.name == "pwrite64" {
			o, ok := verifC36Dec(c.args[3])
			if !ok {
				return fmt.Errorf("pwrite offset not understood")
			}
			off = o
		} else {
			f.off += retv
		}
		content, err := tr.opContent()
		if err != nil {
			return err
		}
		if off+retv > int64(len(content)) {
			return fmt.Errorf("write [%d,%d) beyond the content of the running Save (%d bytes)", off, off+retv, len(content))
		}
		for o := off; o < off+retv; o += tr.chunk {
			e := o + tr.chunk
			if e > off+retv {
				e = off + retv
			}
			tr.add(verifC36Upd{Kind: verifC36KWrite, Ino: f.ino, Off: o, Data: content[o:e], Text: fmt.Sprintf("write ino%d [%d,%d)", f.ino, o, e)})
		}
		return nil
	case "fallocate":
		if failed {
			return nil
		}
		f, _, err := fdOf(0)
		if err != nil {
			return err
		}
		mode := c.args[1]
		o, ok1 := verifC36Dec(c.args[2])
		l, ok2 := verifC36Dec(c.args[3])
		if !ok1 || !ok2 {
			return fmt.Errorf("fallocate arguments not understood")
		}
		if mode == "0" {
			tr.add(verifC36Upd{Kind: verifC36KSetSize, Ino: f.ino, Size: o + l, Text: fmt.Sprintf("fallocate ino%d size>=%d", f.ino, o+l)})
		} else if !strings.Contains(mode, "FALLOC_FL_KEEP_SIZE") || strings.Contains(mode, "PUNCH") || strings.Contains(mode, "ZERO") {
			return fmt.Errorf("fallocate mode %s not modelled", mode)
		}
		return nil
	case "ftruncate":
		if failed {
			return nil
		}
		f, _, err := fdOf(0)
		if err != nil {
			return err
		}
		l, ok := verifC36Dec(c.args[1])
		if !ok {
			return fmt.Errorf("ftruncate length not understood")
		}
		tr.add(verifC36Upd{Kind: verifC36KSetSize, Ino: f.ino, Size: l, Exact: true, Text: fmt.Sprintf("ftruncate ino%d to %d", f.ino, l)})
		return nil
	case "fsync", "fdatasync":
		if failed {
			return nil
		}
		f, _, err := fdOf(0)
		if err != nil {
			return err
		}
		what := "file"
		if tr.isDir[f.ino] {
			what = "dir " + tr.dirPath[f.ino]
		}
		tr.add(verifC36Upd{Kind: verifC36KFsync, Ino: f.ino, DirSync: tr.isDir[f.ino], Text: fmt.Sprintf("%s(%s ino%d)", c.name, what, f.ino)})
		return nil
	case "rename", "renameat", "renameat2":
		if failed {
			return nil
		}
		a, b := 0, 1
		if c.name != "rename" {
			a, b = 1, 3
		}
		if c.name == "renameat2" && len(c.args) > 4 && c.args[4] != "0" {
			return fmt.Errorf("renameat2 flags %s not modelled", c.args[4])
		}
		p1, err := tr.absPath(c, a-1, a)
		if err != nil {
			return err
		}
		p2, err := tr.absPath(c, b-1, b)
		if err != nil {
			return err
		}
		d1, n1, ino, err := tr.resolve(p1)
		if err != nil {
			return err
		}
		d2, n2, _, err := tr.resolve(p2)
		if err != nil {
			return err
		}
		if ino < 0 || tr.isDir[ino] {
			return fmt.Errorf("rename of a directory or unknown file not modelled")
		}
		delete(tr.live[d1], n1)
		tr.live[d2][n2] = ino
		tr.add(verifC36Upd{Kind: verifC36KRename, Ino: ino, Dir: d1, Name: n1, Dir2: d2, Name2: n2, Text: fmt.Sprintf("rename %s -> %s", tr.rel(d1, n1), tr.rel(d2, n2))})
		return nil
	case "unlink", "unlinkat", "rmdir":
		if failed {
			return nil
		}
		pi := 0
		if c.name == "unlinkat" {
			pi = 1
			if len(c.args) > 2 && strings.Contains(c.args[2], "AT_REMOVEDIR") {
				return fmt.Errorf("rmdir not modelled")
			}
		}
		if c.name == "rmdir" {
			return fmt.Errorf("rmdir not modelled")
		}
		p, err := tr.absPath(c, pi-1, pi)
		if err != nil {
			return err
		}
		d, n, ino, err := tr.resolve(p)
		if err != nil {
			return err
		}
		if ino < 0 || tr.isDir[ino] {
			return fmt.Errorf("unlink of unknown file")
		}
		delete(tr.live[d], n)
		tr.add(verifC36Upd{Kind: verifC36KUnlink, Ino: ino, Dir: d, Name: n, Text: "unlink " + tr.rel(d, n)})
		return nil
	case "mkdir", "mkdirat":
		if failed {
			return nil
		}
		pi := 0
		if c.name == "mkdirat" {
			pi = 1
		}
		p, err := tr.absPath(c, pi-1, pi)
		if err != nil {
			return err
		}
		d, n, ino, err := tr.resolve(p)
		if err != nil {
			return err
		}
		if ino >= 0 {
			return fmt.Errorf("mkdir of an existing name")
		}
		ino = tr.newIno(true)
		tr.live[d][n] = ino
		tr.live[ino] = map[string]int{}
		tr.dirPath[ino] = tr.rel(d, n)
		tr.mkdirOf[ino] = len(tr.upd)
		tr.add(verifC36Upd{Kind: verifC36KMkdir, Ino: ino, Dir: d, Name: n, Text: "mkdir " + tr.rel(d, n)})
		return nil
	case "chmod", "fchmodat", "fchmodat2", "fchmod":
		if failed {
			return nil
		}
		var ino int
		var mi int
		var where string
		if c.name == "fchmod" {
			f, _, err := fdOf(0)
			if err != nil {
				return err
			}
			ino, mi, where = f.ino, 1, fmt.Sprintf("ino%d", f.ino)
		} else {
			pi := 0
			if c.name != "chmod" {
				pi = 1
			}
			p, err := tr.absPath(c, pi-1, pi)
			if err != nil {
				return err
			}
			d, n, i, err := tr.resolve(p)
			if err != nil {
				return err
			}
			if i < 0 {
				return fmt.Errorf("chmod of unknown file")
			}
			ino, mi, where = i, pi+1, tr.rel(d, n)
		}
		if tr.isDir[ino] {
			return fmt.Errorf("chmod of a directory not modelled")
		}
		m, ok := verifC36Int(c.args[mi])
		if !ok {
			return fmt.Errorf("chmod mode not understood")
		}
		tr.add(verifC36Upd{Kind: verifC36KChmod, Ino: ino, Mode: uint32(m), Text: fmt.Sprintf("chmod %s %04o", where, m)})
		return nil
	}
	return fmt.Errorf("syscall %s on the repository directory is not modelled", c.name)
}

// ---------------------------------------------------------------------------
// crash states

type verifC36State struct {
	delta map[int]map[string]int // directory inode -> name -> inode (-1 = removed)
	fops  map[int][]int          // file inode -> kept data updates (write / set-size) in issue order
	mode  map[int]uint32
	kept  int
}

type verifC36Entry struct {
	Path string
	Dir  bool
	Ino  int
	Ops  []int
	Mode uint32
}

func (s *verifC36State) get(tr *verifC36Trace, dir int, name string) (int, bool) {
	if d, ok := s.delta[dir]; ok {
		if v, ok := d[name]; ok {
			return v, v >= 0
		}
	}
	v, ok := tr.baseDirs[dir][name]
	return v, ok
}

func (s *verifC36State) set(dir int, name string, ino int) {
	d := s.delta[dir]
	if d == nil {
		d = map[string]int{}
		s.delta[dir] = d
	}
	d[name] = ino
}

// build replays the kept updates among upd[0:upto] on the initial state.
func (tr *verifC36Trace) build(upto int, keep func(int) bool) *verifC36State {
	s := &verifC36State{delta: map[int]map[string]int{}, fops: map[int][]int{}, mode: map[int]uint32{}}
	for idx := 0; idx < upto; idx++ {
		u := &tr.upd[idx]
		if !u.mutating() || !keep(idx) {
			continue
		}
		s.kept++
		switch u.Kind {
		case verifC36KCreate, verifC36KMkdir:
			s.set(u.Dir, u.Name, u.Ino)
		case verifC36KRename:
			if v, ok := s.get(tr, u.Dir, u.Name); ok && v == u.Ino {
				s.set(u.Dir, u.Name, -1)
			}
			s.set(u.Dir2, u.Name2, u.Ino)
		case verifC36KUnlink:
			if v, ok := s.get(tr, u.Dir, u.Name); ok && v == u.Ino {
				s.set(u.Dir, u.Name, -1)
			}
		case verifC36KWrite, verifC36KSetSize:
			s.fops[u.Ino] = append(s.fops[u.Ino], idx)
		case verifC36KChmod:
			s.mode[u.Ino] = u.Mode
		}
	}
	return s
}

func (tr *verifC36Trace) reachable(s *verifC36State, d int) bool {
	for {
		if _, ok := tr.baseDirs[d]; ok {
			return true
		}
		mk, ok := tr.mkdirOf[d]
		if !ok {
			return false
		}
		u := &tr.upd[mk]
		if v, ok := s.get(tr, u.Dir, u.Name); !ok || v != d {
			return false
		}
		d = u.Dir
	}
}

// entries lists everything in the state that is not part of the initial directory tree.
func (tr *verifC36Trace) entries(s *verifC36State) []verifC36Entry {
	var out []verifC36Entry
	for d, m := range s.delta {
		if !tr.reachable(s, d) {
			continue
		}
		for name, ino := range m {
			if ino < 0 {
				continue
			}
			e := verifC36Entry{Path: tr.rel(d, name), Ino: ino, Dir: tr.isDir[ino]}
			if !e.Dir {
				e.Ops = s.fops[ino]
				e.Mode = tr.creMode[ino]
				if m, ok := s.mode[ino]; ok {
					e.Mode = m
				}
			}
			out = append(out, e)
		}
	}
	sort.Slice(out, func(i, j int) bool { return out[i].Path < out[j].Path })
	return out
}

func (tr *verifC36Trace) content(ops []int) []byte {
	var buf []byte
	for _, idx := range ops {
		u := &tr.upd[idx]
		switch u.Kind {
		case verifC36KSetSize:
			switch {
			case int64(len(buf)) < u.Size:
				buf = append(buf, make([]byte, u.Size-int64(len(buf)))...)
			case u.Exact:
				buf = buf[:u.Size]
			}
		case verifC36KWrite:
			end := u.Off + int64(len(u.Data))
			if int64(len(buf)) < end {
				buf = append(buf, make([]byte, end-int64(len(buf)))...)
			}
			copy(buf[u.Off:end], u.Data)
		}
	}
	return buf
}

func (tr *verifC36Trace) hash(ino int, ops []int) [32]byte {
	k := fmt.Sprint(ino, ops)
	if h, ok := tr.hashes[k]; ok {
		return h
	}
	h := sha256.Sum256(tr.content(ops))
	tr.hashes[k] = h
	return h
}

func (tr *verifC36Trace) key(ents []verifC36Entry) string {
	var sb strings.Builder
	for _, e := range ents {
		// os.CreateTemp suffixes are random: name temporaries by inode (creation order), so that keys
		// are comparable across shards and runs
		sb.WriteString(verifC36TmpRE.ReplaceAllString(e.Path, fmt.Sprintf("-tmp-#ino%d", e.Ino)))
		if e.Dir {
			sb.WriteString("/;")
			continue
		}
		h := tr.hash(e.Ino, e.Ops)
		sb.WriteString("=" + hex.EncodeToString(h[:8]) + ";")
	}
	return sb.String()
}

// materialise writes the entries below work (which holds the initial directory tree) and returns a cleanup.
func (tr *verifC36Trace) materialise(work string, ents []verifC36Entry) (func(), error) {
	var made []string
	cleanup := func() {
		for i := len(made) - 1; i >= 0; i-- {
			_ = os.Remove(made[i])
		}
	}
	for _, e := range ents {
		p := filepath.Join(work, e.Path)
		var err error
		if e.Dir {
			err = os.Mkdir(p, 0o700)
		} else {
			err = os.WriteFile(p, tr.content(e.Ops), os.FileMode(e.Mode))
		}
		if err != nil {
			cleanup()
			return nil, err
		}
		made = append(made, p)
	}
	return cleanup, nil
}

// ---------------------------------------------------------------------------
// expectations (from the history and the marker positions only)

type verifC36Expect struct {
	Allowed map[int]bool // versions whose Save had started and that are not older than the newest acknowledged one
	Must    bool         // acknowledged and no Remove started since
}

func (tr *verifC36Trace) expect(upto int) (exp []verifC36Expect, during string) {
	exp = make([]verifC36Expect, len(tr.hs))
	for i := range exp {
		exp[i].Allowed = map[int]bool{}
	}
	during = "before:0"
	for idx := 0; idx < upto; idx++ {
		u := &tr.upd[idx]
		if u.Kind != verifC36KMark {
			continue
		}
		n, _ := strconv.Atoi(u.Mark[1:])
		op := tr.hist[n]
		begin := u.Mark[0] == 'B'
		if begin {
			during = "during:" + op.label(n, tr.hs)
		} else {
			during = "after:" + op.label(n, tr.hs)
		}
		switch op.Kind {
		case "save":
			if begin {
				exp[op.H].Allowed[op.Ver] = true
			} else {
				exp[op.H].Allowed = map[int]bool{op.Ver: true}
				exp[op.H].Must = true
			}
		case "remove":
			if begin {
				exp[op.H].Must = false
			}
		}
	}
	return exp, during
}

func verifC36ExpectString(hs []*verifC36Handle, exp []verifC36Expect) string {
	var parts []string
	for i, e := range exp {
		var vs []string
		for v := range e.Allowed {
			vs = append(vs, fmt.Sprintf("v%d", v))
		}
		sort.Strings(vs)
		parts = append(parts, fmt.Sprintf("%s:{%s}must=%v", hs[i].Label, strings.Join(vs, ","), e.Must))
	}
	return strings.Join(parts, " ")
}

// ---------------------------------------------------------------------------
// the oracle: real local.Open + List + Load on a materialised crash state

type verifC36Problem struct {
	Kind   string
	Handle string
	What   string
}

func verifC36Classify(got []byte, vers [][]byte) string {
	if len(got) == 0 {
		return "empty"
	}
	for _, v := range vers {
		if len(got) < len(v) && bytes.Equal(got, v[:len(got)]) {
			return "prefix"
		}
	}
	for _, v := range vers {
		if len(got) == len(v) {
			hole := true
			for i := range got {
				if got[i] != v[i] && got[i] != 0 {
					hole = false
					break
				}
			}
			if hole {
				return "hole"
			}
		}
	}
	for _, v := range vers {
		if len(got) <= len(v) {
			ok := true
			for i := range got {
				if got[i] != v[i] && got[i] != 0 {
					ok = false
					break
				}
			}
			if ok {
				return "short-with-holes"
			}
		}
	}
	return "other"
}

var verifC36ListTypes = []backend.FileType{backend.PackFile, backend.SnapshotFile, backend.IndexFile, backend.KeyFile, backend.LockFile}

func verifC36RepoType(t backend.FileType) restic.FileType {
	switch t {
	case backend.PackFile:
		return restic.PackFile
	case backend.SnapshotFile:
		return restic.SnapshotFile
	case backend.IndexFile:
		return restic.IndexFile
	case backend.KeyFile:
		return restic.KeyFile
	}
	return restic.LockFile
}

func verifC36Check(dir string, hs []*verifC36Handle, exp []verifC36Expect) (probs []verifC36Problem, outcome string) {
	ctx := context.Background()
	add := func(kind, h, format string, a ...any) {
		probs = append(probs, verifC36Problem{Kind: kind, Handle: h, What: fmt.Sprintf(format, a...)})
	}
	be, err := local.Open(ctx, local.Config{Path: dir, Connections: 2}, nil)
	if err != nil {
		add("open-failed", "-", "local.Open on the crash state failed: %v", err)
		return probs, "open-failed"
	}
	repo, err := repository.New(be, repository.Options{})
	if err != nil {
		add("open-failed", "-", "repository.New failed: %v", err)
		return probs, "open-failed"
	}
	status := make([]string, len(hs))
	for i := range status {
		status[i] = "absent"
	}
	temps := 0
	checkContent := func(i int, listedSize int64) {
		h := hs[i]
		var got []byte
		err := be.Load(ctx, h.H, 0, 0, func(rd io.Reader) error {
			var e error
			got, e = io.ReadAll(rd)
			return e
		})
		if err != nil {
			status[i] = "load-error"
			add("load-failed", h.Label, "Load of listed file %s failed: %v", h.Label, err)
			return
		}
		if listedSize >= 0 && listedSize != int64(len(got)) {
			add("size-mismatch", h.Label, "List reports size %d for %s, Load returns %d bytes", listedSize, h.Label, len(got))
		}
		match := -1
		for v, c := range h.Vers {
			if bytes.Equal(got, c) {
				match = v
			}
		}
		switch {
		case match < 0:
			cl := verifC36Classify(got, h.Vers)
			status[i] = "bad:" + cl
			var sizes []string
			for _, c := range h.Vers {
				sizes = append(sizes, strconv.Itoa(len(c)))
			}
			add("bad-content:"+cl, h.Label, "%s is visible under its final name with %d bytes that are not the complete content of any Save of that name (sizes %s): %s", h.Label, len(got), strings.Join(sizes, "/"), cl)
		case !exp[i].Allowed[match]:
			status[i] = fmt.Sprintf("v%d!", match)
			if len(exp[i].Allowed) == 0 || !exp[i].Must {
				add("unexpected-version", h.Label, "%s is visible with the content of version %d although that Save had not started", h.Label, match)
			} else {
				add("acked-save-lost", h.Label, "%s has the content of version %d although a newer Save of it had been acknowledged", h.Label, match)
			}
		default:
			status[i] = fmt.Sprintf("v%d", match)
		}
	}
	for _, t := range verifC36ListTypes {
		var raw []backend.FileInfo
		if err := be.List(ctx, t, func(fi backend.FileInfo) error { raw = append(raw, fi); return nil }); err != nil {
			add("list-failed", t.String(), "Backend.List(%v) failed on the crash state: %v", t, err)
			continue
		}
		ids := map[string]bool{}
		if err := repo.List(ctx, verifC36RepoType(t), func(id restic.ID, _ int64) error { ids[id.String()] = true; return nil }); err != nil {
			add("list-failed", t.String(), "Repository.List(%v) failed on the crash state: %v", t, err)
			continue
		}
		sort.Slice(raw, func(i, j int) bool { return raw[i].Name < raw[j].Name })
		for _, fi := range raw {
			found := -1
			for i, h := range hs {
				if h.H.Type == t && h.H.Name == fi.Name {
					found = i
				}
			}
			if found >= 0 {
				checkContent(found, fi.Size)
				continue
			}
			temps++
			if ids[fi.Name] {
				add("temp-listed", t.String(), "file %q (%d bytes) is not a final name of the history but Repository.List(%v) reports it as a repository file", fi.Name, fi.Size, t)
			} else if _, err := restic.ParseID(fi.Name); err == nil {
				add("temp-listed", t.String(), "file %q parses as a repository ID", fi.Name)
			}
		}
	}
	// the config file is not listed; look at it directly
	cfg := hs[verifC36CFG]
	if _, err := be.Stat(ctx, cfg.H); err == nil {
		checkContent(verifC36CFG, -1)
	} else if !be.IsNotExist(err) {
		add("stat-failed", cfg.Label, "Stat(config) failed: %v", err)
	}
	for i, h := range hs {
		if exp[i].Must && status[i] == "absent" {
			add("acked-save-lost", h.Label, "the Save of %s had been acknowledged (and no Remove started since) but the file is missing after the crash", h.Label)
		}
	}
	var parts []string
	for i, h := range hs {
		parts = append(parts, h.Label+"="+status[i])
	}
	return probs, strings.Join(parts, ",") + fmt.Sprintf(",other=%d", temps)
}

// ---------------------------------------------------------------------------
// enumeration helpers

// verifC36Subsets calls fn with every subset (as a bit mask over p elements) of the bounded space.
func verifC36Subsets(p, full, nd, nk int, fn func(dropped []bool)) {
	dropped := make([]bool, p)
	if p <= full {
		for m := 0; m < 1<<p; m++ {
			for b := 0; b < p; b++ {
				dropped[b] = m&(1<<b) != 0
			}
			fn(dropped)
		}
		return
	}
	// all subsets that drop <= nd
	var rec func(start, left int, val bool)
	rec = func(start, left int, val bool) {
		fn(dropped)
		if left == 0 {
			return
		}
		for b := start; b < p; b++ {
			dropped[b] = val
			rec(b+1, left-1, val)
			dropped[b] = !val
		}
	}
	for b := range dropped {
		dropped[b] = false
	}
	rec(0, nd, true)
	// all subsets that keep <= nk (start from "all dropped"); the visitor dedupes
	for b := range dropped {
		dropped[b] = true
	}
	rec(0, nk, false)
}

// ---------------------------------------------------------------------------

func verifC36RunChild(t *testing.T, scratch, repoDir, markDir string, injectWhen int) (tracePath string, log []verifC36OpLog) {
	strace, err := exec.LookPath("strace")
	if err != nil {
		t.Fatalf("C36 infrastructure: strace not available: %v", err)
	}
	exe, err := os.Executable()
	if err != nil {
		t.Fatalf("C36 infrastructure: %v", err)
	}
	tracePath = filepath.Join(scratch, "trace.txt")
	logPath := filepath.Join(scratch, "child.json")
	args := []string{"-f", "-y", "-qq", "-s", "0", "-e", "trace=%file,%desc", "-e", "signal=none"}
	if injectWhen > 0 {
		args = append(args, "-e", fmt.Sprintf("inject=fsync,fdatasync:error=EIO:when=%d", injectWhen))
	}
	cmd := exec.Command(strace, append(args, "-o", tracePath, exe, "-test.run", "^TestVerif_C36$", "-test.count", "1", "-test.timeout", "120s")...)
	for _, kv := range os.Environ() {
		k := strings.SplitN(kv, "=", 2)[0]
		if strings.HasPrefix(k, "VERIF_") || k == "GODEBUG" {
			continue
		}
		cmd.Env = append(cmd.Env, kv)
	}
	cmd.Env = append(cmd.Env, "VERIF_C36_CHILD="+repoDir, "VERIF_C36_MARK="+markDir, "VERIF_C36_LOG="+logPath, "GODEBUG=asyncpreemptoff=1")
	out, err := cmd.CombinedOutput()
	if err != nil {
		t.Fatalf("C36 infrastructure: the traced child failed (strace/ptrace unavailable or child error): %v\n%s", err, out)
	}
	buf, err := os.ReadFile(logPath)
	if err != nil {
		t.Fatalf("C36 infrastructure: child log missing: %v\n%s", err, out)
	}
	if err := json.Unmarshal(buf, &log); err != nil {
		t.Fatalf("C36 infrastructure: child log unreadable: %v", err)
	}
	return tracePath, log
}

// verifC36RealTree describes the directory the child left behind (files only + directories not in base).
func verifC36RealTree(root string) (map[string]string, error) {
	out := map[string]string{}
	err := filepath.Walk(root, func(p string, fi os.FileInfo, err error) error {
		if err != nil {
			return err
		}
		rel, _ := filepath.Rel(root, p)
		if fi.IsDir() {
			out[rel+"/"] = "dir"
			return nil
		}
		buf, err := os.ReadFile(p)
		if err != nil {
			return err
		}
		h := sha256.Sum256(buf)
		out[rel] = fmt.Sprintf("%s mode=%04o", hex.EncodeToString(h[:8]), fi.Mode().Perm())
		return nil
	})
	return out, err
}

func TestVerif_C36(t *testing.T) {
	if os.Getenv("VERIF_C36_CHILD") != "" {
		verifC36Child(t)
		return
	}
	r := vh.Start(t, "C36")
	defer r.Finish()
	chunk := vh.Pick(r, int64(1<<30), int64(8192))
	full := vh.Pick(r, 10, 16)
	nd := vh.Pick(r, 2, 4)
	nk := vh.Pick(r, 1, 3)
	r.Rule(fmt.Sprintf("one strace'd run of the fixed history (6 Saves incl. overwrite, atomic config replace and a Save into a missing sub-directory, 1 Remove, 4 Lists) on the real local backend; crash point = between any two logical updates of the trace; ordered model: every prefix j with lastFsync(i) <= j <= i; weak model: every subset of the updates not covered by an fsync of their file/directory is dropped (all 2^p subsets if p <= %d pending, else all that drop <= %d or keep <= %d; write extents of at most %d bytes); each distinct state per crash point is materialised and checked with the real local.Open/List/Load; evaluations = crash states materialised and checked; non-trivial = distinct crash states (by directory content) that differ from both the initial and the final directory", full, nd, nk, chunk))
	r.Assume("the strace trace (%file,%desc classes) shows every modification of the repository directory; any syscall on it that the model does not know aborts the check with exit 2; replaying all updates must reproduce the real final directory (checked in every shard)",
		"write extents are torn only at the stated granularity; rename/unlink/create/mkdir are atomic",
		"weak model: fsync(dir) makes the entries of dir durable and also dir's own entry in its parent (holds on ext4/xfs/btrfs/f2fs; restic never fsyncs the parent of a directory it creates in Save, see notes)",
		"file modes are not part of the oracle (chmod is replayed in issue order, not dropped independently); Remove is not required to be durable")

	nFsync := 0
	analyze := func(label string, injectWhen int) {
		scratch := r.Scratch
		if label != "" {
			scratch = filepath.Join(r.Scratch, fmt.Sprintf("inj%02d", injectWhen))
			if err := os.MkdirAll(scratch, 0o700); err != nil {
				t.Fatal(err)
			}
			defer os.RemoveAll(scratch)
		}
		ctx := context.Background()
		repoDir := filepath.Join(scratch, "repo")
		markDir := filepath.Join(scratch, verifC36MarkName)
		work := filepath.Join(scratch, "state")
		hs := verifC36Handles()
		hist := verifC36History()
		for _, d := range []string{repoDir, work} {
			if _, err := local.Create(ctx, local.Config{Path: d, Connections: 2}, nil); err != nil {
				t.Fatalf("C36 fixture: local.Create: %v", err)
			}
			// the sub-directory of C must not exist yet
			if err := os.Remove(filepath.Join(d, "data", hs[verifC36C].H.Name[:2])); err != nil {
				t.Fatalf("C36 fixture: %v", err)
			}
		}
		tr := &verifC36Trace{root: repoDir, baseDirs: map[int]map[string]int{}, isDir: map[int]bool{}, dirPath: map[int]string{},
			mkdirOf: map[int]int{}, creMode: map[int]uint32{}, live: map[int]map[string]int{}, fds: map[int]*verifC36Fd{}, curOp: -1,
			hs: hs, hist: hist, chunk: chunk, hashes: map[string][32]byte{}}
		if err := tr.walkInitial(); err != nil {
			t.Fatalf("C36 fixture: %v", err)
		}

		tracePath, childLog := verifC36RunChild(t, scratch, repoDir, markDir, injectWhen)
		if err := tr.parseTrace(tracePath, markDir); err != nil {
			t.Fatalf("C36 infrastructure: trace model incomplete: %v", err)
		}
		if os.Getenv("VERIF_C36_DUMP") != "" {
			for i, u := range tr.upd {
				t.Logf("upd %3d op=%2d %s", i, u.Op, u.Text)
			}
		}
		N := len(tr.upd)

		// every operation of the history must have succeeded and been delimited
		if len(childLog) != len(hist) {
			t.Fatalf("C36 infrastructure: child ran %d of %d operations", len(childLog), len(hist))
		}
		marks := 0
		for _, u := range tr.upd {
			if u.Kind == verifC36KMark {
				marks++
			}
		}
		failedOps := 0
		for i, l := range childLog {
			if l.Err != "" {
				if injectWhen == 0 {
					t.Fatalf("C36 fixture: operation %s (%d) failed in the traced run: %s", l.Op, i, l.Err)
				}
				failedOps++ // an injected fsync failure: the operation reports an error and is not acknowledged
			}
		}
		if marks != 2*len(hist)-failedOps {
			t.Fatalf("C36 infrastructure: %d markers in the trace, expected %d", marks, 2*len(hist)-failedOps)
		}
		if injectWhen > 0 {
			r.Outcome(fmt.Sprintf("fsync #%d fails with EIO: %d operation(s) reported an error", injectWhen, failedOps))
		}

		// self-check: replaying everything reproduces the real final directory
		all := func(int) bool { return true }
		finalEnts := tr.entries(tr.build(N, all))
		{
			want := map[string]string{}
			for _, p := range tr.dirPath {
				if p != "" {
					want[p+"/"] = "dir"
				} else {
					want["./"] = "dir"
				}
			}
			for _, e := range finalEnts {
				if e.Dir {
					want[e.Path+"/"] = "dir"
					continue
				}
				h := tr.hash(e.Ino, e.Ops)
				want[e.Path] = fmt.Sprintf("%s mode=%04o", hex.EncodeToString(h[:8]), e.Mode)
			}
			got, err := verifC36RealTree(repoDir)
			if err != nil {
				t.Fatalf("C36 infrastructure: %v", err)
			}
			for k, v := range got {
				if want[k] != v {
					t.Fatalf("C36 infrastructure: trace model does not reproduce the real final directory: %s is %q, model says %q", k, v, want[k])
				}
			}
			for k, v := range want {
				if got[k] != v {
					t.Fatalf("C36 infrastructure: trace model does not reproduce the real final directory: model has %s = %q, real %q", k, v, got[k])
				}
			}
		}
		initialKey := tr.key(tr.entries(tr.build(0, all)))
		finalKey := tr.key(finalEnts)
		r.Trace(1)

		// shape of the trace, for the evidence
		kinds := map[int]int{}
		for _, u := range tr.upd {
			kinds[u.Kind]++
		}
		if injectWhen == 0 {
			nFsync = kinds[verifC36KFsync]
		}
		r.Extra(label+"trace_updates", fmt.Sprintf("%d updates: create=%d mkdir=%d write=%d setsize=%d rename=%d unlink=%d chmod=%d fsync=%d marker=%d", N,
			kinds[verifC36KCreate], kinds[verifC36KMkdir], kinds[verifC36KWrite], kinds[verifC36KSetSize], kinds[verifC36KRename],
			kinds[verifC36KUnlink], kinds[verifC36KChmod], kinds[verifC36KFsync], kinds[verifC36KMark]))
		for idx, u := range tr.upd {
			if u.Kind != verifC36KMkdir {
				continue
			}
			parentSynced := false
			for j := idx + 1; j < N; j++ {
				if tr.upd[j].Kind == verifC36KFsync && tr.upd[j].Ino == u.Dir {
					parentSynced = true
				}
			}
			if !parentSynced {
				r.Note("%s (update %d) is never followed by an fsync of its parent directory; under a model in which fsync(dir) does not persist dir's own entry the acknowledged Save into it could be lost; not counted (outside the statement; assumption 3)", u.Text, idx)
			}
		}

		// live List results of the traced run (no crash): exactly the acknowledged, not removed names
		// (not with an injected fsync failure: a Save that failed at the directory fsync has already published
		// its - complete - file)
		if injectWhen == 0 {
			present := map[int]bool{}
			for i, op := range hist {
				switch op.Kind {
				case "save":
					present[op.H] = true
				case "remove":
					delete(present, op.H)
				case "list":
					var want []string
					for h := range present {
						if hs[h].H.Type == op.T {
							want = append(want, hs[h].H.Name)
						}
					}
					sort.Strings(want)
					if strings.Join(want, ",") != strings.Join(childLog[i].List, ",") {
						r.Violationf("", "C36|"+label+"live|list-mismatch|"+op.label(i, hs), childLog[i], "List during the traced run returned %v, expected exactly %v", childLog[i].List, want)
					}
				}
			}
		}

		// update u is durable at crash point i  <=>  covered[u] < i  (index of the fsync that completes its
		// coverage, N+1 if none)
		firstSync := func(after int, match func(su *verifC36Upd) bool) int {
			for s := after + 1; s < N; s++ {
				if su := &tr.upd[s]; su.Kind == verifC36KFsync && match(su) {
					return s
				}
			}
			return N + 1
		}
		covered := make([]int, N)
		for u := range tr.upd {
			covered[u] = N + 1
			uu := &tr.upd[u]
			dirSync := func(d int) int {
				return firstSync(u, func(su *verifC36Upd) bool { return su.DirSync && su.Ino == d })
			}
			switch uu.Kind {
			case verifC36KWrite, verifC36KSetSize:
				covered[u] = firstSync(u, func(su *verifC36Upd) bool { return !su.DirSync && su.Ino == uu.Ino })
			case verifC36KCreate, verifC36KUnlink:
				covered[u] = dirSync(uu.Dir)
			case verifC36KMkdir:
				// assumption 3: an fsync of the new directory itself also persists its entry in the parent
				covered[u] = min(dirSync(uu.Dir), dirSync(uu.Ino))
			case verifC36KRename:
				covered[u] = max(dirSync(uu.Dir), dirSync(uu.Dir2))
			}
		}

		describe := func(upto int, keep func(int) bool) []string {
			var out []string
			for idx := 0; idx < upto; idx++ {
				u := &tr.upd[idx]
				flag := "kept   "
				if !u.mutating() {
					flag = "       "
				} else if !keep(idx) {
					flag = "DROPPED"
				}
				out = append(out, fmt.Sprintf("%3d %s %s", idx, flag, u.Text))
			}
			return out
		}

		samples := map[string]int{}
		evaluate := func(caseKey, model string, i int, seen map[string]bool, exp []verifC36Expect, during string, keep func(int) bool, variant string, sample bool) {
			r.Count("crash_states_enumerated", 1)
			st := tr.build(i, keep)
			ents := tr.entries(st)
			key := tr.key(ents)
			if seen[key] {
				return
			}
			seen[key] = true
			cleanup, err := tr.materialise(work, ents)
			if err != nil {
				t.Fatalf("C36 infrastructure: cannot materialise crash state: %v", err)
			}
			var probs []verifC36Problem
			var outcome string
			panicked, msg := vh.NoPanic(func() { probs, outcome = verifC36Check(work, hs, exp) })
			cleanup()
			r.Eval(1)
			r.Transition(int64(st.kept))
			r.State(key)
			r.Count("states_"+model, 1)
			if key != initialKey && key != finalKey {
				r.Nontrivial(key)
			}
			r.Outcome(outcome)
			if panicked {
				probs = append(probs, verifC36Problem{Kind: "panic", Handle: "-", What: "restic panicked on the crash state: " + msg})
			}
			if sample && samples[model] < 2 {
				samples[model]++
				r.Sample(map[string]any{"model": model, "crash_point": i, "during": during, "state": key, "outcome": outcome, "expect": verifC36ExpectString(hs, exp)})
			}
			for _, p := range probs {
				var files []string
				for _, e := range ents {
					if e.Dir {
						files = append(files, e.Path+"/")
					} else {
						files = append(files, fmt.Sprintf("%s (%d bytes)", e.Path, len(tr.content(e.Ops))))
					}
				}
				detail := map[string]any{"model": model, "crash_point": i, "during": during, "variant": variant,
					"expect": verifC36ExpectString(hs, exp), "outcome": outcome, "files_in_crash_state": files, "updates": describe(i, keep)}
				r.Violationf(caseKey, fmt.Sprintf("C36|%s%s|%s|%s", label, model, p.Kind, p.Handle), detail,
					"%s model, crash %s (after update %d of %d): %s", model, during, i, N, p.What)
			}
		}

		// ---- ordered model
		for i := 0; i <= N; i++ {
			ck := fmt.Sprintf("%sordered|i=%d", label, i)
			if !r.Case(ck) {
				continue
			}
			if r.Expired() {
				break
			}
			barrier := 0
			for s := 0; s < i; s++ {
				if tr.upd[s].Kind == verifC36KFsync {
					barrier = s + 1
				}
			}
			exp, during := tr.expect(i)
			seen := map[string]bool{}
			for j := barrier; j <= i; j++ {
				jj := j
				evaluate(ck, "ordered", i, seen, exp, during, func(idx int) bool { return idx < jj }, fmt.Sprintf("prefix j=%d", j), j < i && j > barrier)
			}
		}

		// ---- weak model (crash points with many subsets are split into parts so that shards stay balanced)
		maxPending := 0
		for i := 0; i <= N; i++ {
			var pend []int
			for u := 0; u < i; u++ {
				uu := &tr.upd[u]
				if !uu.mutating() || uu.Kind == verifC36KChmod {
					continue
				}
				if covered[u] >= i {
					pend = append(pend, u)
				}
			}
			pos := map[int]int{}
			for k, u := range pend {
				pos[u] = k
			}
			total := 0
			verifC36Subsets(len(pend), full, nd, nk, func([]bool) { total++ })
			parts := 1
			if total > 512 {
				parts = 16
			}
			if len(pend) > full && r.Case(fmt.Sprintf("%sweak|i=%d|part=0/%d", label, i, parts)) {
				r.Count("crash_points_with_bounded_subsets", 1)
			}
			exp, during := tr.expect(i)
			for part := 0; part < parts; part++ {
				ck := fmt.Sprintf("%sweak|i=%d|part=%d/%d", label, i, part, parts)
				if !r.Case(ck) {
					continue
				}
				if r.Expired() {
					break
				}
				if len(pend) > maxPending {
					maxPending = len(pend)
				}
				seen := map[string]bool{}
				n := -1
				verifC36Subsets(len(pend), full, nd, nk, func(dropped []bool) {
					n++
					if n%parts != part || (n&255 == 255 && r.Expired()) {
						return
					}
					keep := func(idx int) bool {
						if k, ok := pos[idx]; ok {
							return !dropped[k]
						}
						return true
					}
					var d []string
					for k, u := range pend {
						if dropped[k] {
							d = append(d, strconv.Itoa(u))
						}
					}
					evaluate(ck, "weak", i, seen, exp, during, keep, "dropped updates ["+strings.Join(d, ",")+"]", len(d) > 0 && i > N/3)
				})
			}
		}
		if maxPending > 0 {
			r.Count(fmt.Sprintf("crash_points_shard_max_pending_%02d", maxPending), 1)
		}
	}
	analyze("", 0)
	// the same history with the k-th fsync/fdatasync of the process failing with EIO (strace fault injection):
	// the Save that meets it must not be acknowledged with unsynced data under its final name
	injected := nFsync
	if !r.Thorough() && injected > 6 {
		injected = 6 // quick: the fsyncs of the first three Saves
	}
	for k := 1; k <= injected; k++ {
		if r.Expired() {
			break
		}
		analyze(fmt.Sprintf("fsync#%d-fails|", k), k)
	}
	r.Extra("fsync_failures_injected", injected)
}

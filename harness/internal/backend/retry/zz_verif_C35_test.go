package retry

// C35: retried backend operations return the error-free result or an error.
//
// Space.  A scripted, stateful fake inner backend answers every attempt of the
// operation under test from a fixed alphabet; ALL answer sequences of length
// <= L (quick 4, thorough 5) are enumerated, each followed by the tail
// "every further attempt succeeds" and "every further attempt fails
// (transient)", for HasFlakyErrors {f,t}, HasAtomicReplace {f,t} (Save), and
// the retry budgets {10ns (beyond the budget after the first attempt: exactly
// one guaranteed retry), 15 min (the restic default; <= 5 scripted failures
// are always within it)}.  Every execution runs the real retry.Backend inside
// a testing/synctest bubble, so the real exponential back-off runs on virtual
// time.  The back-off jitter is random, therefore the two budgets were chosen
// such that the number of scripted answers consumed does not depend on the
// jitter (only the number of attempts in the all-fail tail does, which the
// oracle never looks at).
//
//   Save   {O ok, B fail before reading, P read half + leave partial file + fail,
//           W write everything but report an error, X permanent error,
//           Y permanent error leaving a partial file}   (P,Y only without atomic replace:
//           a backend with atomic replace by definition never exposes a partial file)
//   Load   {O ok, B fail before data, K 1 byte then fail, H half then fail, X permanent}
//           x (length,offset) in {(0,0),(10,7)}; three loads in a row (the second
//           immediately: circuit breaker; the third after 61 virtual minutes)
//   List   {O ok, 0..3 fail after j of 3 entries, D ok with a repeated entry,
//           E repeated entry then fail, R ok in reverse order, X permanent after 1 entry}
//           x callback {never fails, fails on its 2nd call}
//   Stat   {O ok, B fail, N not-exist, X permanent}
//   Remove {O ok, B fail, R removed but reports error, N not-exist}
//
// Oracle (independent of the retry code, reads only the fake's state):
//   * nil result => the error-free result: Save: stored bytes == data;
//     Load: the consumer's (last) output == data[offset:offset+length];
//     List: every file exactly once with the true size; Stat: true FileInfo;
//     Remove: file absent.
//   * error result => Save: the final name holds nothing or the complete data
//     (cleanup Remove is scripted to work); List: each name at most once.
//   * List: the callback never sees a name twice, and is not called again
//     after it returned an error, whose error is what List returns.
//   * permanent errors: no attempt after the N-th permanent answer (N = 1,
//     N = 5 with HasFlakyErrors).  Stopping earlier is allowed.
//   * no panic.
// Not demanded: that transient errors are retried at all (the statement only
// says "completes correctly or reports an error"); retries are what makes a
// case non-trivial.

import (
	"bytes"
	"context"
	"errors"
	"fmt"
	"hash"
	"io"
	"sort"
	"strings"
	"testing"
	"testing/synctest"
	"time"

	"github.com/restic/restic/internal/backend"
	"github.com/restic/restic/internal/verifshim/vh"
)

var (
	verifC35ErrTransient = errors.New("verifC35 transient error")
	verifC35ErrPermanent = errors.New("verifC35 permanent error")
	verifC35ErrNotExist  = errors.New("verifC35 does not exist")
	verifC35ErrCallback  = errors.New("verifC35 callback error")
)

type verifC35Fake struct {
	atomic, flaky bool
	files         map[backend.Handle][]byte
	op            string // operation under test; only its attempts consume the script
	script        string
	tail          byte // 'O', 'B' or 'X'
	given         []byte
	removeCalls   int
}

func (f *verifC35Fake) next() byte {
	a := f.tail
	if len(f.given) < len(f.script) {
		a = f.script[len(f.given)]
	}
	f.given = append(f.given, a)
	return a
}

func (f *verifC35Fake) Properties() backend.Properties {
	return backend.Properties{Connections: 2, HasAtomicReplace: f.atomic, HasFlakyErrors: f.flaky}
}
func (f *verifC35Fake) Hasher() hash.Hash         { return nil }
func (f *verifC35Fake) Close() error              { return nil }
func (f *verifC35Fake) IsNotExist(err error) bool { return errors.Is(err, verifC35ErrNotExist) }
func (f *verifC35Fake) IsPermanentError(err error) bool {
	return errors.Is(err, verifC35ErrNotExist) || errors.Is(err, verifC35ErrPermanent)
}
func (f *verifC35Fake) Delete(context.Context) error { return errors.New("not implemented") }
func (f *verifC35Fake) Warmup(context.Context, []backend.Handle) ([]backend.Handle, error) {
	return nil, nil
}
func (f *verifC35Fake) WarmupWait(context.Context, []backend.Handle) error { return nil }

func (f *verifC35Fake) Save(_ context.Context, h backend.Handle, rd backend.RewindReader) error {
	switch f.next() {
	case 'O':
		buf, err := io.ReadAll(rd)
		if err != nil {
			return err
		}
		f.files[h] = buf
		return nil
	case 'B':
		return verifC35ErrTransient
	case 'P', 'Y':
		a := f.given[len(f.given)-1]
		buf := make([]byte, rd.Length()/2)
		n, _ := io.ReadFull(rd, buf)
		f.files[h] = buf[:n]
		if a == 'Y' {
			return verifC35ErrPermanent
		}
		return verifC35ErrTransient
	case 'W':
		buf, err := io.ReadAll(rd)
		if err != nil {
			return err
		}
		f.files[h] = buf
		return verifC35ErrTransient
	case 'X':
		return verifC35ErrPermanent
	}
	panic("bad save answer")
}

type verifC35FailingReader struct {
	data []byte
}

func (r *verifC35FailingReader) Read(p []byte) (int, error) {
	if len(r.data) == 0 {
		return 0, verifC35ErrTransient
	}
	n := copy(p, r.data)
	r.data = r.data[n:]
	return n, nil
}

func (f *verifC35Fake) Load(_ context.Context, h backend.Handle, length int, offset int64, fn func(rd io.Reader) error) error {
	a := f.next()
	switch a {
	case 'B':
		return verifC35ErrTransient
	case 'X':
		return verifC35ErrPermanent
	}
	buf, ok := f.files[h]
	if !ok {
		return verifC35ErrNotExist
	}
	buf = buf[offset:]
	if length > 0 {
		buf = buf[:length]
	}
	switch a {
	case 'O':
		return fn(bytes.NewReader(buf))
	case 'K':
		return fn(&verifC35FailingReader{data: buf[:1]})
	case 'H':
		return fn(&verifC35FailingReader{data: buf[:len(buf)/2]})
	}
	panic("bad load answer")
}

func (f *verifC35Fake) Stat(_ context.Context, h backend.Handle) (backend.FileInfo, error) {
	switch f.next() {
	case 'O':
		buf, ok := f.files[h]
		if !ok {
			return backend.FileInfo{}, verifC35ErrNotExist
		}
		return backend.FileInfo{Name: h.Name, Size: int64(len(buf))}, nil
	case 'B':
		return backend.FileInfo{}, verifC35ErrTransient
	case 'N':
		return backend.FileInfo{}, verifC35ErrNotExist
	case 'X':
		return backend.FileInfo{}, verifC35ErrPermanent
	}
	panic("bad stat answer")
}

func (f *verifC35Fake) Remove(_ context.Context, h backend.Handle) error {
	if f.op != "remove" {
		// cleanup Remove issued by Save: assumed to work
		f.removeCalls++
		delete(f.files, h)
		return nil
	}
	switch f.next() {
	case 'O':
		delete(f.files, h)
		return nil
	case 'B':
		return verifC35ErrTransient
	case 'R':
		delete(f.files, h)
		return verifC35ErrTransient
	case 'N':
		return verifC35ErrNotExist
	}
	panic("bad remove answer")
}

func (f *verifC35Fake) sortedInfos(t backend.FileType) []backend.FileInfo {
	var l []backend.FileInfo
	for h, b := range f.files {
		if h.Type == t {
			l = append(l, backend.FileInfo{Name: h.Name, Size: int64(len(b))})
		}
	}
	sort.Slice(l, func(i, j int) bool { return l[i].Name < l[j].Name })
	return l
}

func (f *verifC35Fake) List(_ context.Context, t backend.FileType, fn func(backend.FileInfo) error) error {
	l := f.sortedInfos(t)
	a := f.next()
	var seq []backend.FileInfo
	var final error
	switch a {
	case 'O':
		seq = l
	case 'B':
		final = verifC35ErrTransient
	case '0', '1', '2', '3':
		seq, final = l[:int(a-'0')], verifC35ErrTransient
	case 'D':
		seq = []backend.FileInfo{l[0], l[1], l[0], l[2], l[2]}
	case 'E':
		seq, final = []backend.FileInfo{l[0], l[0], l[1]}, verifC35ErrTransient
	case 'R':
		seq = []backend.FileInfo{l[2], l[1], l[0]}
	case 'X':
		seq, final = l[:1], verifC35ErrPermanent
	default:
		panic("bad list answer")
	}
	for _, fi := range seq {
		if err := fn(fi); err != nil {
			return err
		}
	}
	return final
}

var _ backend.Backend = &verifC35Fake{}

type verifC35Cfg struct {
	op       string
	atomic   bool
	flaky    bool
	budget   time.Duration
	variant  int // Load: range variant; List: callback variant
	alphabet string
	terminal string // answers after which a correct implementation need not call again
}

func (c verifC35Cfg) key() string {
	return fmt.Sprintf("%s|atomic=%v|flaky=%v|budget=%v|var=%d", c.op, c.atomic, c.flaky, c.budget, c.variant)
}

type verifC35Case struct {
	cfg    verifC35Cfg
	script string
	tail   byte
}

func (c verifC35Case) key() string {
	return fmt.Sprintf("%s|seq=%s|tail=%c", c.cfg.key(), c.script, c.tail)
}

// verifC35Exec runs one case (must be called inside a synctest bubble) and
// returns the list of oracle failures ("kind: text"), an outcome signature and
// whether a retry happened.
func verifC35Exec(c verifC35Case) (fails []string, outcome string, retried bool) {
	fail := func(kind, format string, a ...any) {
		fails = append(fails, kind+": "+fmt.Sprintf(format, a...))
	}
	data := make([]byte, 64)
	for i := range data {
		data[i] = byte(i*7 + 3)
	}
	fake := &verifC35Fake{atomic: c.cfg.atomic, flaky: c.cfg.flaky, files: map[backend.Handle][]byte{},
		op: c.cfg.op, script: c.script, tail: c.tail}
	be := New(fake, c.cfg.budget, nil, nil)
	ctx := context.Background()
	h := backend.Handle{Type: backend.PackFile, Name: "file-under-test"}
	var out []string

	errs := func(err error) string {
		switch {
		case err == nil:
			return "nil"
		case errors.Is(err, verifC35ErrNotExist):
			return "notexist"
		case errors.Is(err, verifC35ErrPermanent):
			return "permanent"
		case errors.Is(err, verifC35ErrTransient):
			return "transient"
		case errors.Is(err, verifC35ErrCallback):
			return "callback"
		case strings.Contains(err.Error(), "circuit breaker"):
			return "breaker"
		}
		return "other:" + err.Error()
	}

	switch c.cfg.op {
	case "save":
		err := be.Save(ctx, h, backend.NewByteReader(data, nil))
		stored, present := fake.files[h]
		if err == nil && !(present && bytes.Equal(stored, data)) {
			fail("save-ok-wrong-content", "Save returned nil but the stored file is present=%v with %d bytes (want the %d bytes saved)", present, len(stored), len(data))
		}
		if err != nil && present && !bytes.Equal(stored, data) {
			fail("save-failed-partial-left", "Save returned %v and left %d of %d bytes under the final name", err, len(stored), len(data))
		}
		out = append(out, errs(err), fmt.Sprintf("present=%v", present))
	case "load":
		length, offset := 0, int64(0)
		if c.cfg.variant == 1 {
			length, offset = 10, 7
		}
		fake.files[h] = data
		want := data[offset:]
		if length > 0 {
			want = want[:length]
		}
		for i := 0; i < 3; i++ {
			if i == 2 {
				time.Sleep(61 * time.Minute)
			}
			var got []byte
			var lastErr error
			calls := 0
			err := be.Load(ctx, h, length, offset, func(rd io.Reader) error {
				calls++
				got, lastErr = io.ReadAll(rd)
				return lastErr
			})
			if err == nil && (calls == 0 || lastErr != nil || !bytes.Equal(got, want)) {
				fail("load-ok-wrong-data", "Load #%d returned nil but the consumer was called %d times, last err %v, got %d bytes (want %d)", i+1, calls, lastErr, len(got), len(want))
			}
			out = append(out, errs(err))
		}
	case "list":
		fake.files[backend.Handle{Type: backend.PackFile, Name: "a"}] = data[:1]
		fake.files[backend.Handle{Type: backend.PackFile, Name: "b"}] = data[:2]
		fake.files[backend.Handle{Type: backend.PackFile, Name: "c"}] = data[:3]
		fake.files[backend.Handle{Type: backend.IndexFile, Name: "zz"}] = data[:4]
		seen := map[string]int{}
		sizes := map[string]int64{}
		calls, afterErr := 0, 0
		failed := false
		err := be.List(ctx, backend.PackFile, func(fi backend.FileInfo) error {
			if failed {
				afterErr++
			}
			calls++
			seen[fi.Name]++
			sizes[fi.Name] = fi.Size
			if c.cfg.variant == 1 && calls == 2 {
				failed = true
				return verifC35ErrCallback
			}
			return nil
		})
		for _, n := range []string{"a", "b", "c"} {
			if seen[n] > 1 {
				fail("list-duplicate", "List reported %q %d times", n, seen[n])
			}
		}
		for n := range seen {
			if n != "a" && n != "b" && n != "c" {
				fail("list-foreign", "List reported %q which is not a pack file", n)
			}
		}
		if err == nil && !failed {
			for i, n := range []string{"a", "b", "c"} {
				if seen[n] != 1 || sizes[n] != int64(i+1) {
					fail("list-ok-incomplete", "List returned nil but %q was reported %d times with size %d", n, seen[n], sizes[n])
				}
			}
		}
		if failed && afterErr > 0 {
			fail("list-callback-after-error", "callback was called %d more times after it returned an error", afterErr)
		}
		if failed && !errors.Is(err, verifC35ErrCallback) {
			fail("list-callback-error-lost", "callback returned an error but List returned %v", err)
		}
		out = append(out, errs(err), fmt.Sprintf("seen=%d", len(seen)))
	case "stat":
		fake.files[h] = data
		fi, err := be.Stat(ctx, h)
		if err == nil && (fi.Name != h.Name || fi.Size != int64(len(data))) {
			fail("stat-ok-wrong-info", "Stat returned nil with %+v", fi)
		}
		out = append(out, errs(err))
	case "remove":
		fake.files[h] = data
		err := be.Remove(ctx, h)
		if _, present := fake.files[h]; err == nil && present {
			fail("remove-ok-still-present", "Remove returned nil but the file still exists")
		}
		out = append(out, errs(err))
	}

	// permanent errors: no attempt after the N-th permanent answer
	limit := 1
	if c.cfg.flaky {
		limit = 5
	}
	perms := 0
	for i, a := range fake.given {
		if a == 'X' || a == 'Y' || a == 'N' {
			perms++
			if perms == limit && i != len(fake.given)-1 {
				// for Load, later loads are separate operations: only flag when the
				// next attempt belongs to the same call; the three loads make this
				// ambiguous, so the load driver is checked through the first call only
				if c.cfg.op != "load" {
					fail("permanent-retried", "%d attempts followed the permanent error number %d (answers given: %s)", len(fake.given)-1-i, limit, fake.given)
				}
				break
			}
		}
	}
	if c.cfg.op == "load" {
		// recompute for the first Load call alone with a fresh backend
		fake2 := &verifC35Fake{flaky: c.cfg.flaky, files: map[backend.Handle][]byte{h: data}, op: "load", script: c.script, tail: c.tail}
		be2 := New(fake2, c.cfg.budget, nil, nil)
		_ = be2.Load(ctx, h, 0, 0, func(rd io.Reader) error { _, err := io.ReadAll(rd); return err })
		perms = 0
		for i, a := range fake2.given {
			if a == 'X' {
				perms++
				if perms == limit && i != len(fake2.given)-1 {
					fail("permanent-retried", "%d attempts followed the permanent error number %d within one Load (answers given: %s)", len(fake2.given)-1-i, limit, fake2.given)
					break
				}
			}
		}
	}
	consumed := len(fake.given)
	if consumed > len(c.script) {
		consumed = len(c.script) + 1 // do not let the jitter-dependent tail length into the outcome
	}
	outcome = fmt.Sprintf("%s|%s|consumed=%d", c.cfg.op, strings.Join(out, ","), consumed)
	return fails, outcome, len(fake.given) > 1
}

func verifC35Sequences(alphabet, terminal string, maxLen int, fn func(seq string)) {
	var rec func(prefix []byte)
	rec = func(prefix []byte) {
		fn(string(prefix))
		if len(prefix) == maxLen {
			return
		}
		if len(prefix) > 0 && strings.IndexByte(terminal, prefix[len(prefix)-1]) >= 0 {
			return
		}
		for i := 0; i < len(alphabet); i++ {
			rec(append(prefix[:len(prefix):len(prefix)], alphabet[i]))
		}
	}
	rec(nil)
}

// VerifC35Real is set by the external test package (zz_verif_C35_real_test.go, which may import the
// repository): the real consumers of Load behind the real retry backend.
var VerifC35Real func(t *testing.T, r *vh.Run)

func TestVerif_C35(t *testing.T) {
	r := vh.Start(t, "C35")
	defer r.Finish()
	if VerifC35Real != nil {
		defer VerifC35Real(t, r)
	}
	maxLen := vh.Pick(r, 4, 6)
	r.Rule(fmt.Sprintf("all inner-backend answer sequences of length <= %d per operation (Save/Load/List/Stat/Remove) x tail {all-ok, all-fail, all-permanent} x HasFlakyErrors x HasAtomicReplace (Save) x budget {10ns, 15m} through the real retry.Backend on virtual time; non-trivial = the operation was attempted more than once (a retry or a wrongly repeated permanent error happened)", maxLen))
	r.Assume("the cleanup Remove issued by a failed Save succeeds", "a backend with atomic replace never exposes a partial file", "back-off jitter only influences the number of attempts in the all-fail tail, which the oracle ignores")

	var cfgs []verifC35Cfg
	for _, budget := range []time.Duration{10, 15 * time.Minute} {
		for _, flaky := range []bool{false, true} {
			cfgs = append(cfgs,
				verifC35Cfg{op: "save", atomic: false, flaky: flaky, budget: budget, alphabet: "OBPWXY", terminal: "O"},
				verifC35Cfg{op: "save", atomic: true, flaky: flaky, budget: budget, alphabet: "OBWX", terminal: "O"},
				verifC35Cfg{op: "load", flaky: flaky, budget: budget, variant: 0, alphabet: "OBKHX", terminal: ""},
				verifC35Cfg{op: "load", flaky: flaky, budget: budget, variant: 1, alphabet: "OBKHX", terminal: ""},
				verifC35Cfg{op: "list", flaky: flaky, budget: budget, variant: 0, alphabet: "O0123DERX", terminal: "ODR"},
				verifC35Cfg{op: "list", flaky: flaky, budget: budget, variant: 1, alphabet: "O0123DERX", terminal: ""},
				verifC35Cfg{op: "stat", flaky: flaky, budget: budget, alphabet: "OBNX", terminal: "O"},
				verifC35Cfg{op: "remove", flaky: flaky, budget: budget, alphabet: "OBRN", terminal: "O"},
			)
		}
	}

	for _, cfg := range cfgs {
		// group the sequences of one configuration by their first two answers
		groups := map[string][]string{}
		var order []string
		verifC35Sequences(cfg.alphabet, cfg.terminal, maxLen, func(seq string) {
			p := seq
			if len(p) > 2 {
				p = p[:2]
			}
			if _, ok := groups[p]; !ok {
				order = append(order, p)
			}
			groups[p] = append(groups[p], seq)
		})
		for _, p := range order {
			ck := cfg.key() + "|prefix=" + p
			if !r.Case(ck) {
				continue
			}
			if r.Expired() {
				return
			}
			seqs := groups[p]
			synctest.Test(t, func(t *testing.T) {
				for _, seq := range seqs {
					tails := []byte{'O', 'B'}
					if strings.ContainsRune(cfg.alphabet, 'X') {
						tails = append(tails, 'X') // every further answer is the permanent error
					}
					for _, tail := range tails {
						c := verifC35Case{cfg: cfg, script: seq, tail: tail}
						var fails []string
						var outcome string
						var retried bool
						panicked, msg := vh.NoPanic(func() { fails, outcome, retried = verifC35Exec(c) })
						r.Eval(1)
						r.Trace(1)
						if panicked {
							r.Violationf(ck, "C35|"+c.key()+"|panic", c.key(), "retry backend panicked: %s", msg)
							continue
						}
						r.Transition(int64(len(seq) + 1))
						r.Outcome(outcome)
						r.State(cfg.op + "|" + outcome)
						if retried {
							r.Nontrivial(c.key())
						}
						for _, f := range fails {
							kind := f[:strings.Index(f, ":")]
							r.Violationf(ck, "C35|"+c.key()+"|"+kind, map[string]any{"op": cfg.op, "atomic": cfg.atomic, "flaky": cfg.flaky,
								"budget": cfg.budget.String(), "variant": cfg.variant, "script": seq, "tail": string(tail)}, "%s [%s]", f, c.key())
						}
						if seq == "BW" || seq == "1E" {
							r.Sample(map[string]any{"case": c.key(), "outcome": outcome, "retried": retried})
						}
					}
				}
			})
		}
	}
}

package retry_test

// C35, second part: the REAL consumers of Backend.Load behind the real
// retry.Backend.  "A retried operation either completes with the same result an
// error-free backend gives or reports an error" is a statement about the pair
// (retry layer, consumer): Backend.Load may call its consumer several times
// within one Load, so every consumer has to start over on each call.
//
// Fixture: a repository with two forged snapshots (multi-blob files, shared
// blobs) on the in-memory store.  Stack per execution, inside a synctest
// bubble (the real back-off runs on virtual time):
//
//	observer -> retry.New(15 min) -> faulty backend -> in-memory store
//
// Consumers driven on top of it (all real): check --read-data (checker:
// index/snapshot loading, pack streaming with on-the-fly hashing), LoadRaw of
// every file, a tree walk through LoadBlob, and the restorer (LoadBlobsFromPack
// / pack streaming).
//
// Space: the error-free run yields the set Q of distinct Load requests
// (file, offset, length).  For every q in Q, every fault mode
//
//	B fail before any data        K one true byte, then the transfer breaks
//	H half of the true bytes, then the transfer breaks
//	F like H with one bit flipped in the delivered half
//	W all true bytes are delivered and consumed, then the backend reports a
//	  transient error all the same (the retry layer repeats the whole Load)
//
// and n in {1, 2}: the first n arrivals of q are answered in that mode, every
// other request truthfully.  (Which goroutine's attempt is hit is the
// runtime's choice; the set of faulty answers is not.)
//
// Oracle: if no Load returned an error to its caller (observer), everything
// must be exactly as in the error-free run: check reports no error, every
// file's LoadRaw hashes to its name, the walked content of both snapshots and
// the restored files equal what was backed up, the restorer reports no error.
// If some Load did return an error, the operation "reported an error" and
// nothing is demanded.  No panic, no hang.

import (
	"bytes"
	"context"
	"errors"
	"fmt"
	"io"
	"os"
	"path/filepath"
	"sort"
	"strings"
	"sync"
	"testing"
	"testing/synctest"
	"time"

	"github.com/restic/restic/internal/backend"
	"github.com/restic/restic/internal/backend/retry"
	"github.com/restic/restic/internal/data"
	"github.com/restic/restic/internal/repository"
	"github.com/restic/restic/internal/restic"
	"github.com/restic/restic/internal/restorer"
	"github.com/restic/restic/internal/verifshim/detrand"
	"github.com/restic/restic/internal/verifshim/gatebe"
	"github.com/restic/restic/internal/verifshim/oracle"
	"github.com/restic/restic/internal/verifshim/vh"
)

func init() { retry.VerifC35Real = verifC35Real }

var errVerifC35RealTransient = errors.New("verifC35 transient transfer error")

type verifC35Req struct {
	h      backend.Handle
	length int
	offset int64
}

func (q verifC35Req) String() string {
	return fmt.Sprintf("%s/%s[%d+%d]", q.h.Type, q.h.Name[:min(8, len(q.h.Name))], q.offset, q.length)
}

type verifC35Faulty struct {
	backend.Backend
	mu     sync.Mutex
	seen   map[verifC35Req]int
	target *verifC35Req
	mode   byte
	n      int
	hits   int
}

type verifC35BrokenReader struct{ rd io.Reader }

func (b *verifC35BrokenReader) Read(p []byte) (int, error) {
	n, err := b.rd.Read(p)
	if err == io.EOF {
		err = errVerifC35RealTransient
	}
	return n, err
}

func (f *verifC35Faulty) Load(ctx context.Context, h backend.Handle, length int, offset int64, fn func(rd io.Reader) error) error {
	q := verifC35Req{backend.Handle{Type: h.Type, Name: h.Name}, length, offset}
	f.mu.Lock()
	f.seen[q]++
	hit := f.target != nil && q == *f.target && f.hits < f.n
	if hit {
		f.hits++
	}
	f.mu.Unlock()
	if !hit {
		return f.Backend.Load(ctx, h, length, offset, fn)
	}
	if f.mode == 'B' {
		return errVerifC35RealTransient
	}
	var all []byte
	if err := f.Backend.Load(ctx, h, length, offset, func(rd io.Reader) (err error) { all, err = io.ReadAll(rd); return err }); err != nil {
		return err
	}
	switch f.mode {
	case 'W':
		if err := fn(bytes.NewReader(all)); err != nil {
			return err
		}
		return errVerifC35RealTransient
	case 'K':
		all = all[:min(1, len(all))]
	case 'H', 'F':
		all = append([]byte{}, all[:len(all)/2]...)
		if f.mode == 'F' && len(all) > 0 {
			all[len(all)/2] ^= 0x10
		}
	}
	if err := fn(&verifC35BrokenReader{bytes.NewReader(all)}); err != nil {
		return err
	}
	// a consumer that accepts a broken transfer has "completed": the retry layer will not call it again
	return nil
}

type verifC35Observer struct {
	backend.Backend
	mu      sync.Mutex
	loadErr []string
}

func (o *verifC35Observer) Load(ctx context.Context, h backend.Handle, length int, offset int64, fn func(rd io.Reader) error) error {
	err := o.Backend.Load(ctx, h, length, offset, fn)
	if err != nil {
		o.mu.Lock()
		o.loadErr = append(o.loadErr, fmt.Sprintf("%v: %v", h, err))
		o.mu.Unlock()
	}
	return err
}

type verifC35RealResult struct {
	problems []string
	loadErrs []string
	retries  int
}

func verifC35RealRun(t *testing.T, base gatebe.State, expect oracle.Expect, files map[gatebe.FileKey][]byte, scratch string, target *verifC35Req, mode byte, n int, seen map[verifC35Req]int) (res verifC35RealResult) {
	synctest.Test(t, func(t *testing.T) {
		ctx, cancel := context.WithTimeout(context.Background(), 6*time.Hour) // virtual
		defer cancel()
		store := gatebe.NewStoreFrom(base, nil)
		faulty := &verifC35Faulty{Backend: &gatebe.Backend{S: store, Proc: "r", Conns: 2, AtomicReplace: true}, seen: map[verifC35Req]int{}, target: target, mode: mode, n: n}
		rb := retry.New(faulty, 15*time.Minute, nil, func(string, int) { res.retries++ })
		obs := &verifC35Observer{Backend: rb}
		bad := func(format string, a ...any) { res.problems = append(res.problems, fmt.Sprintf(format, a...)) }
		repo, err := oracle.OpenOn(ctx, obs, repository.Options{})
		if err != nil {
			bad("open: the repository does not open: %v", err)
		} else {
			for _, e := range oracle.Check(ctx, repo, true).Errors {
				bad("check: check --read-data reports an error on a healthy repository: %s", e)
			}
			keys := make([]gatebe.FileKey, 0, len(files))
			for k := range files {
				keys = append(keys, k)
			}
			sort.Slice(keys, func(i, j int) bool { return keys[i].String() < keys[j].String() })
			for _, k := range keys {
				if k.Type != backend.PackFile && k.Type != backend.IndexFile && k.Type != backend.SnapshotFile {
					continue
				}
				id, _ := restic.ParseID(k.Name)
				buf, err := repo.LoadRaw(ctx, restic.FileType(k.Type), id)
				switch {
				case err != nil:
					bad("loadraw: LoadRaw(%s) failed: %v", k, err)
				case !bytes.Equal(buf, files[k]):
					bad("loadraw: LoadRaw(%s) returned %d bytes that are not the %d stored bytes, without an error", k, len(buf), len(files[k]))
				}
			}
			snaps := make([]restic.ID, 0, len(expect))
			for id := range expect {
				snaps = append(snaps, id)
			}
			sort.Slice(snaps, func(i, j int) bool { return bytes.Compare(snaps[i][:], snaps[j][:]) < 0 })
			for i, id := range snaps {
				sn, err := data.LoadSnapshot(ctx, repo, id)
				if err != nil || sn.Tree == nil {
					bad("snapshot: snapshot %d does not load: %v", i, err)
					continue
				}
				got, err := oracle.Walk(ctx, repo, *sn.Tree)
				if err != nil {
					bad("walk: reading snapshot %d failed: %v", i, err)
				} else if ok, diff := expect[id].Equal(got); !ok {
					bad("walk: snapshot %d read without error but with other content: %s", i, diff)
				}
				target := filepath.Join(scratch, fmt.Sprintf("restore%d", i))
				_ = os.RemoveAll(target)
				var locs []string
				rs := restorer.NewRestorer(repo, sn, restorer.Options{})
				rs.Error = func(location string, err error) error {
					locs = append(locs, fmt.Sprintf("%s: %v", location, err))
					return nil
				}
				if _, err := rs.RestoreTo(ctx, target); err != nil {
					bad("restore: restore of snapshot %d failed: %v", i, err)
				} else if len(locs) > 0 {
					bad("restore: restore of snapshot %d reported errors: %v", i, locs)
				} else {
					for p, want := range expect[id] {
						if !strings.HasPrefix(want, "f:") {
							continue
						}
						b, err := os.ReadFile(filepath.Join(target, p))
						if err != nil || oracle.FileDesc(b) != want {
							bad("restore: restore of snapshot %d reported no error but %q is not what was backed up (%v)", i, p, err)
						}
					}
				}
				_ = os.RemoveAll(target)
			}
		}
		obs.mu.Lock()
		res.loadErrs = obs.loadErr
		obs.mu.Unlock()
		if seen != nil {
			faulty.mu.Lock()
			for q, c := range faulty.seen {
				seen[q] = c
			}
			faulty.mu.Unlock()
		}
	})
	return res
}

func verifC35Real(t *testing.T, r *vh.Run) {
	ctx := context.Background()
	tStart := time.Now()
	// deterministic random stream while the fixture is written: every shard process enumerates the same repository
	restore := detrand.Install(35)
	repo, store, err := oracle.NewRepo(ctx, 2, repository.Options{})
	if err != nil {
		t.Fatal(err)
	}
	expect := oracle.Expect{}
	s1 := oracle.Spec{"a": oracle.LCG(1, 2500), "d/b": oracle.LCG(2, 1800), "d/c": []byte("small file"), "d/e/zero": make([]byte, 3000)}
	s2 := oracle.Spec{"a": oracle.LCG(1, 2500), "d/b": oracle.LCG(3, 2200), "new": oracle.LCG(4, 700)}
	for i, spec := range []oracle.Spec{s1, s2} {
		id, model, err := oracle.Forge(ctx, repo, spec, oracle.ForgeOpts{ChunkSize: 1000, Time: time.Date(2021, 2, 3+i, 0, 0, 0, 0, time.UTC)})
		if err != nil {
			t.Fatal(err)
		}
		expect[id] = model
	}
	restore()
	base := store.Snapshot()
	files := map[gatebe.FileKey][]byte{}
	for k, v := range base {
		files[k] = v
	}

	// error-free run: the oracle must be clean and yields the set of distinct requests
	seen := map[verifC35Req]int{}
	t0 := time.Now()
	res := verifC35RealRun(t, base, expect, files, r.Scratch, nil, 0, 0, seen)
	r.Note("real consumers: error-free run took %v (fixture %v)", time.Since(t0).Round(time.Millisecond), t0.Sub(tStart).Round(time.Millisecond))
	if len(res.problems) > 0 || len(res.loadErrs) > 0 {
		t.Fatalf("C35 real consumers: error-free run is not clean: %v %v", res.problems, res.loadErrs)
	}
	var reqs []verifC35Req
	for q := range seen {
		reqs = append(reqs, q)
	}
	// Pack and index file names differ between processes (the data and the tree packer draw their nonces
	// concurrently), so a request is named by (type, file size, offset, length, ordinal among equals):
	// the same labels in every shard and in a replay.
	size := func(q verifC35Req) int {
		return len(base[gatebe.FileKey{Type: q.h.Type, Name: q.h.Name}])
	}
	group := func(q verifC35Req) string {
		return fmt.Sprintf("%s|size=%d|%d+%d", q.h.Type, size(q), q.offset, q.length)
	}
	sort.Slice(reqs, func(i, j int) bool {
		if gi, gj := group(reqs[i]), group(reqs[j]); gi != gj {
			return gi < gj
		}
		return reqs[i].h.Name < reqs[j].h.Name
	})
	labels := make([]string, len(reqs))
	for i, q := range reqs {
		n := 0
		for j := i - 1; j >= 0 && group(reqs[j]) == group(q); j-- {
			n++
		}
		labels[i] = fmt.Sprintf("%s|#%d", group(q), n)
	}
	r.Extra("real_consumers_distinct_load_requests", len(reqs))

	counts := []int{1}
	if r.Thorough() {
		counts = []int{1, 2}
	}
	for qi, q := range reqs {
		q := q
		for _, mode := range []byte("BKHFW") {
			for _, n := range counts {
				ck := fmt.Sprintf("real|%s|%c|n=%d", labels[qi], mode, n)
				if !r.Case(ck) {
					continue
				}
				if r.Expired() {
					return
				}
				var res verifC35RealResult
				panicked, msg := vh.NoPanic(func() { res = verifC35RealRun(t, base, expect, files, r.Scratch, &q, mode, n, nil) })
				r.Eval(1)
				r.Trace(1)
				r.Transition(int64(n))
				r.Count("real_consumer_executions", 1)
				key := "C35|" + ck
				if panicked {
					r.Violationf(ck, key+"|panic", ck, "panic with the real consumers: %s", msg)
					continue
				}
				if res.retries > 0 {
					r.Nontrivial(ck)
				}
				switch {
				case len(res.loadErrs) > 0:
					r.Outcome(fmt.Sprintf("real|%s|%c|load reported an error", q.h.Type, mode))
				case len(res.problems) == 0:
					r.Outcome(fmt.Sprintf("real|%s|%c|same result as error-free (retries>0: %v)", q.h.Type, mode, res.retries > 0))
				default:
					kind := res.problems[0][:strings.Index(res.problems[0], ":")]
					r.Outcome(fmt.Sprintf("real|%s|%c|DIFFERENT RESULT %s", q.h.Type, mode, kind))
					r.Violationf(ck, key+"|"+kind, map[string]any{"request": q.String(), "mode": string(mode), "n": n},
						"no Load returned an error, but with the first %d answer(s) to %s in mode %c the result differs from the error-free run: %s", n, q, mode, strings.Join(res.problems, "; "))
				}
				if mode == 'W' && q.h.Type == backend.PackFile && q.offset == 0 {
					r.Sample(map[string]any{"case": ck, "retries": res.retries, "problems": res.problems, "load_errors": res.loadErrs})
				}
			}
		}
	}
}

//go:build darwin || freebsd || linux

package fuse

// C46: reading a mounted file returns exactly the requested byte range.
//
// FUSE cannot be mounted in the sandbox; the handlers are driven in-process the
// way the FUSE server (anacrolix/fuse/fs serve.go, case *fuse.ReadRequest) does:
// node.Open, then handle.Read(ctx, &ReadRequest{Offset,Size},
// &ReadResponse{Data: make([]byte, 0, Size)}).
//
// Part 1 (ENUM, real repository.Repository over the in-memory backend):
//   layouts   all sequences of <= 4 blob sizes from {0,1,2,5}            (341)
//   content   mode A: byte p of the file = p+1 (all blobs distinct, except empty ones)
//             mode B: every blob of size s has the same content (the same blob ID occurs several times in one file)
//   declared  node.Size in {exact, 0, total+3} (file.Open documents "sizes do not match ... using real size")
//   cache     bloblru of {64 MiB, room for exactly one blob, room for none}; one cache + one open handle
//             per (layout, mode, declared, cache), all reads are issued in sequence on it (hits, evictions)
//   reads     every (offset,size) with 0 <= offset <= total+2, 0 <= size <= total+3
//   oracle    resp.Data == file[min(offset,total) : min(offset+size,total)], err == nil, no panic
//
// Part 3 (several Opens of one file node): (a) every layout of <= 3 blobs x the
// first Open cancelled at its k-th blob-size lookup (or completing), then the
// node is opened again and every range is read through the new handle (and the
// first one); (b) two goroutines open the same node and read everything, every
// blob-size lookup is a scheduling point, all interleavings within the bound.
//
// Part 2 (FINE, sync of internal/bloblru + internal/fuse replaced by vsync): two
// registered readers on one shared open handle issue overlapping reads; the blob
// cache has room for one blob (every further blob evicts); repo.LoadBlob is a
// gate (Yield: a load in flight).  All orders of cache-mutex acquisitions and
// load completions within the preemption bound.  Oracle as above per read, no
// deadlock, no panic.

import (
	"bytes"
	"context"
	"fmt"
	"strings"
	gosync "sync"
	"testing"

	"github.com/anacrolix/fuse"
	"github.com/anacrolix/fuse/fs"

	"github.com/restic/restic/internal/bloblru"
	"github.com/restic/restic/internal/data"
	"github.com/restic/restic/internal/repository"
	"github.com/restic/restic/internal/restic"
	"github.com/restic/restic/internal/verifshim/vh"
	"github.com/restic/restic/internal/verifshim/vx"
	"github.com/restic/restic/internal/verifshim/xplore"
)

var verifC46Sizes = []int{0, 1, 2, 5}

// verifC46Layouts returns all sequences of <= maxLen sizes.
func verifC46Layouts(maxLen int) [][]int {
	out := [][]int{{}}
	prev := [][]int{{}}
	for l := 1; l <= maxLen; l++ {
		var next [][]int
		for _, p := range prev {
			for _, s := range verifC46Sizes {
				next = append(next, append(append([]int{}, p...), s))
			}
		}
		out = append(out, next...)
		prev = next
	}
	return out
}

func verifC46BlobA(start, size int) []byte {
	b := make([]byte, size)
	for j := range b {
		b[j] = byte(start + j + 1)
	}
	return b
}

func verifC46BlobB(size int) []byte {
	b := make([]byte, size)
	for j := range b {
		b[j] = byte(0xB0 + 16*size + j)
	}
	return b
}

// verifC46File returns the blobs of a layout in the given content mode.
func verifC46File(layout []int, mode string) (blobs [][]byte, file []byte) {
	pos := 0
	for _, s := range layout {
		var b []byte
		if mode == "A" {
			b = verifC46BlobA(pos, s)
		} else {
			b = verifC46BlobB(s)
		}
		blobs = append(blobs, b)
		file = append(file, b...)
		pos += s
	}
	return blobs, file
}

func verifC46Want(file []byte, offset, size int) []byte {
	total := len(file)
	lo := min(offset, total)
	hi := min(offset+size, total)
	return file[lo:hi]
}

// verifC46Read issues one read the way the FUSE server does.
func verifC46Read(ctx context.Context, h fs.Handle, offset, size int) (got []byte, err error, panicked bool, pmsg string) {
	req := &fuse.ReadRequest{Offset: int64(offset), Size: size}
	resp := &fuse.ReadResponse{Data: make([]byte, 0, size)}
	panicked, pmsg = vh.NoPanic(func() {
		err = h.(fs.HandleReader).Read(ctx, req, resp)
	})
	return resp.Data, err, panicked, pmsg
}

func verifC46LayoutString(layout []int) string {
	parts := make([]string, len(layout))
	for i, s := range layout {
		parts[i] = fmt.Sprint(s)
	}
	return "[" + strings.Join(parts, ",") + "]"
}

func verifC46Enum(t *testing.T, r *vh.Run) {
	ctx := context.Background()
	repo := repository.TestRepository(t)

	// store every blob any layout can need
	ids := map[string]restic.ID{}
	maxCap := 0
	err := repo.WithBlobUploader(ctx, func(ctx context.Context, up restic.BlobSaverWithAsync) error {
		save := func(b []byte) error {
			id, _, _, err := up.SaveBlob(ctx, restic.DataBlob, b, restic.ID{}, false)
			if err != nil {
				return err
			}
			if id != restic.Hash(b) {
				return fmt.Errorf("unexpected blob ID")
			}
			ids[string(b)] = id
			return nil
		}
		for start := 0; start <= 15; start++ {
			for _, s := range verifC46Sizes {
				if err := save(verifC46BlobA(start, s)); err != nil {
					return err
				}
			}
		}
		for _, s := range verifC46Sizes {
			if err := save(verifC46BlobB(s)); err != nil {
				return err
			}
		}
		return nil
	})
	if err != nil {
		t.Fatalf("fixture: saving blobs: %v", err)
	}
	for content, id := range ids {
		buf, err := repo.LoadBlob(ctx, restic.BlobHandle{Type: restic.DataBlob, ID: id}, nil)
		if err != nil || !bytes.Equal(buf, []byte(content)) {
			t.Fatalf("fixture: blob %v does not read back: %v", id, err)
		}
		maxCap = max(maxCap, cap(buf))
		if sz, ok := repo.LookupBlobSize(restic.BlobHandle{Type: restic.DataBlob, ID: id}); !ok || int(sz) != len(content) {
			t.Fatalf("fixture: LookupBlobSize(%v) = %v, %v; want %d", id, sz, ok, len(content))
		}
	}
	// cache sizes: an entry costs cap(blob)+96 bytes
	const ovh = 32 + 64
	caches := []struct {
		name string
		size int
	}{
		{"64MiB", blobCacheSize},
		{"one-blob", maxCap + ovh + 1}, // a second entry (>= 96 bytes) never fits beside a non-empty one
		{"no-blob", ovh},               // only zero-capacity blobs fit
	}
	r.Note("ENUM: %d distinct blobs stored in a real in-memory repository; max cap(LoadBlob result)=%d; cache sizes %v", len(ids), maxCap, caches)

	layouts := verifC46Layouts(4)
	for _, layout := range layouts {
		for _, mode := range []string{"A", "B"} {
			ls := verifC46LayoutString(layout)
			caseKey := "enum|" + ls + "|" + mode
			if !r.Case(caseKey) {
				continue
			}
			if r.Expired() {
				return
			}
			blobs, file := verifC46File(layout, mode)
			total := len(file)
			var content restic.IDs
			for _, b := range blobs {
				content = append(content, ids[string(b)])
			}
			for _, declared := range []string{"exact", "zero", "plus3"} {
				nodeSize := uint64(total)
				switch declared {
				case "zero":
					nodeSize = 0
				case "plus3":
					nodeSize = uint64(total + 3)
				}
				if declared != "exact" && nodeSize == uint64(total) {
					continue // same as exact
				}
				for _, cc := range caches {
					node := &data.Node{Name: "f", Type: data.NodeTypeFile, Mode: 0o644, Size: nodeSize, Content: content}
					root := &Root{repo: repo, blobCache: bloblru.New(cc.size)}
					f, err := newFile(root, func() {}, inodeFromNode(1, node), node)
					if err != nil {
						t.Fatalf("newFile: %v", err)
					}
					var h fs.Handle
					panicked, pmsg := vh.NoPanic(func() { h, err = f.Open(ctx, &fuse.OpenRequest{}, &fuse.OpenResponse{}) })
					if panicked || err != nil {
						r.Violationf(caseKey, "C46|open|"+ls+"|"+mode+"|"+declared, map[string]any{"layout": layout, "mode": mode, "declared": declared},
							"Open of a file with blob sizes %s failed: err=%v panic=%s", ls, err, pmsg)
						continue
					}
					variant := declared + "|" + cc.name
					for offset := 0; offset <= total+2; offset++ {
						for size := 0; size <= total+3; size++ {
							want := verifC46Want(file, offset, size)
							got, err, panicked, pmsg := verifC46Read(ctx, h, offset, size)
							r.Eval(1)
							r.Transition(1)
							verifC46Classify(r, layout, offset, size, total)
							r.Outcome(fmt.Sprintf("len=%d", len(got)))
							if panicked || err != nil || !bytes.Equal(got, want) {
								kind := "wrong-bytes"
								if panicked {
									kind = "panic"
								} else if err != nil {
									kind = "error"
								}
								key := fmt.Sprintf("C46|%s|%s|%s|%s|off=%d|size=%d", kind, ls, mode, variant, offset, size)
								r.Violationf(caseKey, key, map[string]any{"layout": layout, "mode": mode, "declared_size": nodeSize, "cache": cc.name, "cache_bytes": cc.size,
									"offset": offset, "size": size, "file": file, "want": want, "got": got, "err": fmt.Sprint(err), "panic": pmsg},
									"file of blobs %s (content mode %s, node.Size %s, cache %s, total %d bytes): Read(offset=%d,size=%d) returned %v (err=%v, panicked=%v), want %v",
									ls, mode, declared, cc.name, total, offset, size, got, err, panicked, want)
							}
						}
					}
					r.Trace(1)
				}
			}
			r.Sample(map[string]any{"layout": layout, "mode": mode, "total": total, "reads_per_variant": (total + 3) * (total + 4)})
		}
	}
}

// verifC46Classify counts the non-trivial reads: those for which the blob
// arithmetic matters.
func verifC46Classify(r *vh.Run, layout []int, offset, size, total int) {
	if size == 0 || total == 0 {
		r.Count("reads_trivial_empty", 1)
		return
	}
	// blobs touched by [offset, min(offset+size,total))
	lo, hi := min(offset, total), min(offset+size, total)
	touched, pos, mid, emptyInside := 0, 0, false, false
	for _, s := range layout {
		bl, bh := pos, pos+s
		if s == 0 && bl >= lo && bl <= hi {
			emptyInside = true
		}
		if s > 0 && bl < hi && bh > lo {
			touched++
			if lo > bl && lo < bh {
				mid = true
			}
		}
		pos += s
	}
	nontrivial := false
	if touched >= 2 {
		r.Count("reads_spanning_blob_boundary", 1)
		nontrivial = true
	}
	if mid {
		r.Count("reads_starting_inside_a_blob", 1)
		nontrivial = true
	}
	if offset+size > total {
		r.Count("reads_past_end", 1)
		nontrivial = true
	}
	if offset >= total {
		r.Count("reads_starting_at_or_after_end", 1)
	}
	if emptyInside {
		r.Count("reads_over_an_empty_blob", 1)
		nontrivial = true
	}
	if nontrivial {
		r.NontrivialByConstruction(1)
	}
}

// ---------- Part 2: concurrent readers (FINE) ----------

type verifC46FakeRepo struct {
	restic.Repository // nil: nothing else may be called by file.Open / openFile.Read
	mu                gosync.Mutex
	blobs             map[restic.ID][]byte
	label             map[restic.ID]string
	x                 *xplore.Exec
	loads             int
	// part 3
	onLookup    func(n int) // called with the ordinal of every LookupBlobSize
	lookups     int
	gateLookups bool // LookupBlobSize of registered goroutines is a scheduling point
	lookupNo    map[string]int
}

func (f *verifC46FakeRepo) LookupBlobSize(bh restic.BlobHandle) (uint, bool) {
	if f.onLookup != nil {
		f.mu.Lock()
		f.lookups++
		n := f.lookups
		f.mu.Unlock()
		f.onLookup(n)
	}
	if f.x != nil && f.gateLookups {
		if proc := f.x.ProcOfCaller(); proc != "" {
			f.mu.Lock()
			f.lookupNo[proc]++
			n := f.lookupNo[proc]
			f.mu.Unlock()
			f.x.Gate(xplore.Event{Key: fmt.Sprintf("%s:lookup#%d", proc, n), Proc: proc, Kind: "lookup"})
		}
	}
	b, ok := f.blobs[bh.ID]
	return uint(len(b)), ok && bh.Type == restic.DataBlob
}

func (f *verifC46FakeRepo) LoadBlob(_ context.Context, bh restic.BlobHandle, buf []byte) ([]byte, error) {
	b, ok := f.blobs[bh.ID]
	if !ok {
		return nil, fmt.Errorf("blob %v not found", bh.ID)
	}
	f.mu.Lock()
	f.loads++
	f.mu.Unlock()
	// like Repository.loadBlob: a caller's buffer that is large enough is used for the download
	// (ciphertext first, while the transfer is in flight) and the plaintext is decrypted in place
	need := len(b) + 16
	reuse := cap(buf) >= need
	if reuse {
		buf = buf[:need]
		for i := range buf {
			buf[i] = 0xEE
		}
	}
	if f.x != nil {
		proc := f.x.ProcOfCaller()
		if f.x.Gate(xplore.Event{Key: proc + ":load:" + f.label[bh.ID], Proc: proc, Kind: "load", Yield: true}) < 0 {
			return nil, fmt.Errorf("execution torn down")
		}
	}
	if reuse {
		copy(buf, b)
		return buf[:len(b)], nil
	}
	// a fresh buffer with some spare capacity
	out := make([]byte, len(b), need)
	copy(out, b)
	return out, nil
}

type verifC46ReadSpec struct{ off, size int }

type verifC46Conc struct {
	name    string
	layout  []int
	mode    string
	readers map[string][]verifC46ReadSpec
}

type verifC46ReadRes struct {
	proc string
	spec verifC46ReadSpec
	got  []byte
	err  error
	pan  string
	done bool
}

type verifC46ConcState struct {
	repo *verifC46FakeRepo
	res  []*verifC46ReadRes
	file []byte
}

func verifC46ConcSetup(sc verifC46Conc, x *xplore.Exec) (*verifC46ConcState, fs.Handle, error) {
	blobs, file := verifC46File(sc.layout, sc.mode)
	repo := &verifC46FakeRepo{blobs: map[restic.ID][]byte{}, label: map[restic.ID]string{}, x: x}
	var content restic.IDs
	for i, b := range blobs {
		id := restic.Hash(b)
		repo.blobs[id] = b
		if _, ok := repo.label[id]; !ok {
			repo.label[id] = fmt.Sprintf("b%d", i)
		}
		content = append(content, id)
	}
	// room for exactly one blob: cap = len+16 <= 21, entry = cap+96
	root := &Root{repo: repo, blobCache: bloblru.New(21 + 96 + 1)}
	node := &data.Node{Name: "f", Type: data.NodeTypeFile, Mode: 0o644, Size: uint64(len(file)), Content: content}
	f, err := newFile(root, func() {}, inodeFromNode(1, node), node)
	if err != nil {
		return nil, nil, err
	}
	h, err := f.Open(context.Background(), &fuse.OpenRequest{}, &fuse.OpenResponse{})
	if err != nil {
		return nil, nil, err
	}
	return &verifC46ConcState{repo: repo, file: file}, h, nil
}

func verifC46ReaderNames(sc verifC46Conc) []string {
	var names []string
	for _, n := range []string{"R1", "R2", "R3"} {
		if _, ok := sc.readers[n]; ok {
			names = append(names, n)
		}
	}
	return names
}

func verifC46ConcScenario(r *vh.Run, sc verifC46Conc) (xplore.Scenario, func(x *xplore.Exec)) {
	scen := xplore.Scenario{
		Start: func(x *xplore.Exec) {
			st, h, err := verifC46ConcSetup(sc, x)
			if err != nil {
				panic(fmt.Sprintf("fixture: %v", err))
			}
			x.Data = st
			for _, name := range verifC46ReaderNames(sc) {
				name := name
				var mine []*verifC46ReadRes
				for _, sp := range sc.readers[name] {
					rr := &verifC46ReadRes{proc: name, spec: sp}
					mine = append(mine, rr)
					st.res = append(st.res, rr)
				}
				x.Go(name, func() {
					for _, rr := range mine {
						got, err, panicked, pmsg := verifC46Read(x.Ctx, h, rr.spec.off, rr.spec.size)
						rr.got, rr.err = got, err
						if panicked {
							rr.pan = pmsg
						}
						rr.done = true
					}
				})
			}
		},
	}
	check := func(x *xplore.Exec) {
		st := x.Data.(*verifC46ConcState)
		var bad []string
		kind := ""
		setKind := func(k string) {
			if kind == "" {
				kind = k
			}
		}
		for _, rr := range st.res {
			want := verifC46Want(st.file, rr.spec.off, rr.spec.size)
			switch {
			case !rr.done:
				if !x.Deadlock && !x.Horizon && len(x.Panics) == 0 {
					bad = append(bad, fmt.Sprintf("%s Read(%d,%d) never returned", rr.proc, rr.spec.off, rr.spec.size))
					setKind("lost")
				}
			case rr.pan != "":
				bad = append(bad, fmt.Sprintf("%s Read(%d,%d) panicked: %s", rr.proc, rr.spec.off, rr.spec.size, rr.pan))
				setKind("panic")
			case rr.err != nil:
				bad = append(bad, fmt.Sprintf("%s Read(%d,%d) returned error %v", rr.proc, rr.spec.off, rr.spec.size, rr.err))
				setKind("error")
			case !bytes.Equal(rr.got, want):
				bad = append(bad, fmt.Sprintf("%s Read(offset=%d,size=%d) returned %v, want %v (file %v, blobs %s)", rr.proc, rr.spec.off, rr.spec.size, rr.got, want, st.file, verifC46LayoutString(sc.layout)))
				setKind("wrong-bytes")
			}
		}
		if x.Deadlock {
			bad = append(bad, "deadlock: unfinished readers but no enabled choice")
			setKind("deadlock")
		}
		for _, p := range x.Panics {
			bad = append(bad, "panic: "+p)
			setKind("panic")
		}
		if x.Horizon {
			bad = append(bad, "step horizon reached")
			setKind("harness")
		}
		r.Outcome(fmt.Sprintf("%s|loads=%d", sc.name, st.repo.loads))
		r.State(sc.name + "|" + strings.Join(x.Trace, ">"))
		// non-trivial: the two readers really interleaved inside the cache (some blob was loaded
		// more or less often than a sequential run would: eviction/joins), or at least one preemption happened
		switched := 0
		last := ""
		for _, k := range x.Trace {
			p := k[:strings.IndexByte(k, ':')]
			if last != "" && p != last {
				switched++
			}
			last = p
		}
		if switched >= 2 {
			r.Nontrivial(sc.name + "|" + strings.Join(x.Trace, ">"))
		}
		if len(bad) > 0 {
			vx.Violation(r, "conc-"+sc.name, x, "C46|conc|"+kind+"|"+sc.name, strings.Join(bad, "\n"), map[string]any{"layout": sc.layout, "mode": sc.mode, "readers": fmt.Sprint(sc.readers)})
		}
	}
	return scen, check
}

var verifC46ConcScenarios = []verifC46Conc{
	// 3 blobs, both readers cross both boundaries; every blob load evicts the previous one
	{"212", []int{2, 1, 2}, "A", map[string][]verifC46ReadSpec{"R1": {{0, 5}}, "R2": {{1, 3}}}},
	// an empty blob in the middle, second reader runs past the end; R1 reads twice (hit / reload after eviction)
	{"1021", []int{1, 0, 2, 1}, "A", map[string][]verifC46ReadSpec{"R1": {{0, 4}, {1, 2}}, "R2": {{1, 6}}}},
	// the same blob ID twice in the file (mode B), readers start in different copies
	{"221B", []int{2, 2, 1}, "B", map[string][]verifC46ReadSpec{"R1": {{0, 5}}, "R2": {{3, 2}, {1, 2}}}},
}

// ---------- Part 3: several Opens of one file node (sequential with an interrupted Open, and concurrent) ----------

func verifC46Node(layout []int, mode string, x *xplore.Exec) (*verifC46FakeRepo, *file, []byte, error) {
	blobs, content := verifC46File(layout, mode)
	repo := &verifC46FakeRepo{blobs: map[restic.ID][]byte{}, label: map[restic.ID]string{}, x: x, lookupNo: map[string]int{}}
	var ids restic.IDs
	for i, b := range blobs {
		id := restic.Hash(b)
		repo.blobs[id] = b
		if _, ok := repo.label[id]; !ok {
			repo.label[id] = fmt.Sprintf("b%d", i)
		}
		ids = append(ids, id)
	}
	root := &Root{repo: repo, blobCache: bloblru.New(64 << 20)}
	node := &data.Node{Name: "f", Type: data.NodeTypeFile, Mode: 0o644, Size: uint64(len(content)), Content: ids}
	f, err := newFile(root, func() {}, inodeFromNode(1, node), node)
	return repo, f, content, err
}

// verifC46ReadAll issues every (offset, size) read on the handle and returns the first mismatch.
func verifC46ReadAll(ctx context.Context, h fs.Handle, content []byte) string {
	total := len(content)
	for off := 0; off <= total+1; off++ {
		for size := 0; size <= total+2; size++ {
			got, err, panicked, pmsg := verifC46Read(ctx, h, off, size)
			want := verifC46Want(content, off, size)
			switch {
			case panicked:
				return fmt.Sprintf("Read(%d,%d) panicked: %s", off, size, pmsg)
			case err != nil:
				return fmt.Sprintf("Read(%d,%d) returned error %v", off, size, err)
			case !bytes.Equal(got, want):
				return fmt.Sprintf("Read(offset=%d,size=%d) returned %v, want %v (file %v)", off, size, got, want, content)
			}
		}
	}
	return ""
}

func verifC46Opens(t *testing.T, r *vh.Run) {
	// (a) sequential: the first Open is interrupted (its context is cancelled when the k-th blob size is
	// looked up) or completes; then the same node is opened again and everything is read through the new
	// handle (and through the first one, if there is one)
	for _, layout := range verifC46Layouts(3) {
		if len(layout) == 0 {
			continue
		}
		for _, mode := range []string{"A", "B"} {
			ck := fmt.Sprintf("opens|seq|%s|%s", verifC46LayoutString(layout), mode)
			if !r.Case(ck) {
				continue
			}
			for k := 1; k <= len(layout)+1; k++ {
				repo, f, content, err := verifC46Node(layout, mode, nil)
				if err != nil {
					t.Fatal(err)
				}
				ctx1, cancel := context.WithCancel(context.Background())
				repo.onLookup = func(n int) {
					if n == k {
						cancel()
					}
				}
				h1, err1 := f.Open(ctx1, &fuse.OpenRequest{}, &fuse.OpenResponse{})
				cancel()
				repo.onLookup = nil
				r.Eval(1)
				r.Trace(1)
				if err1 != nil {
					r.NontrivialByConstruction(1)
				}
				h2, err2 := f.Open(context.Background(), &fuse.OpenRequest{}, &fuse.OpenResponse{})
				key := fmt.Sprintf("C46|opens|seq|%s|%s|cancel-at-lookup=%d", verifC46LayoutString(layout), mode, k)
				if err2 != nil {
					r.Violationf(ck, key+"|open-failed", key, "Open after an Open that was cancelled at blob-size lookup %d (first Open: %v) failed: %v", k, err1, err2)
					continue
				}
				if bad := verifC46ReadAll(context.Background(), h2, content); bad != "" {
					r.Violationf(ck, key+"|wrong-bytes", key, "second Open of a file node whose first Open was cancelled at blob-size lookup %d (first Open: %v): %s", k, err1, bad)
				}
				if err1 == nil {
					if bad := verifC46ReadAll(context.Background(), h1, content); bad != "" {
						r.Violationf(ck, key+"|wrong-bytes-first-handle", key, "first handle after a second Open of the same node: %s", bad)
					}
				}
				r.Outcome(fmt.Sprintf("opens|seq|first-open-failed=%v", err1 != nil))
			}
		}
	}
	// (b) concurrent: two goroutines open the same node and read everything; every blob-size lookup is a
	// scheduling point, all interleavings within the preemption bound
	bound := vh.Pick(r, 2, 3)
	for _, layout := range [][]int{{2, 1}, {1, 0, 2}, {5, 2, 1}} {
		layout := layout
		name := "opens|conc|" + verifC46LayoutString(layout)
		type st struct {
			content []byte
			bad     map[string]string
			done    map[string]bool
			handles map[string]fs.Handle
			repo    *verifC46FakeRepo
			mu      gosync.Mutex
		}
		sc := xplore.Scenario{
			Start: func(x *xplore.Exec) {
				repo, f, content, err := verifC46Node(layout, "A", x)
				if err != nil {
					panic(err)
				}
				repo.gateLookups = true
				s := &st{content: content, bad: map[string]string{}, done: map[string]bool{}, handles: map[string]fs.Handle{}, repo: repo}
				x.Data = s
				for _, g := range []string{"O1", "O2"} {
					g := g
					x.Go(g, func() {
						// only the Opens interleave; the handles are read after the execution (in check)
						h, err := f.Open(x.Ctx, &fuse.OpenRequest{}, &fuse.OpenResponse{})
						s.mu.Lock()
						if err != nil {
							s.bad[g] = fmt.Sprintf("Open failed: %v", err)
						}
						s.handles[g], s.done[g] = h, true
						s.mu.Unlock()
					})
				}
			},
		}
		check := func(x *xplore.Exec) {
			s := x.Data.(*st)
			r.State(name + "|" + strings.Join(x.Trace, ">"))
			switched, last := 0, ""
			for _, k := range x.Trace {
				p := k[:strings.IndexByte(k, ':')]
				if last != "" && p != last {
					switched++
				}
				last = p
			}
			if switched >= 2 {
				r.Nontrivial(name + "|" + strings.Join(x.Trace, ">"))
			}
			var bad []string
			s.repo.x = nil // the execution is over: loads are not gated any more
			for _, g := range []string{"O1", "O2"} {
				if s.done[g] && s.bad[g] == "" && s.handles[g] != nil {
					s.bad[g] = verifC46ReadAll(context.Background(), s.handles[g], s.content)
				}
				switch {
				case !s.done[g] && !x.Horizon:
					bad = append(bad, g+" never finished")
				case s.bad[g] != "":
					bad = append(bad, g+": "+s.bad[g])
				}
			}
			for _, p := range x.Panics {
				bad = append(bad, "panic: "+p)
			}
			if x.Deadlock {
				bad = append(bad, "deadlock")
			}
			r.Outcome(fmt.Sprintf("%s|ok=%v", name, len(bad) == 0))
			if len(bad) > 0 {
				vx.Violation(r, name, x, "C46|"+name+"|wrong", strings.Join(bad, "\n"), map[string]any{"layout": layout})
			}
		}
		stt := vx.Explore(r, t, name, sc, xplore.Options{Policy: xplore.Preempt, Bound: bound, LockPoints: true, MaxSteps: 2000}, check)
		r.Note("%s: bound=%d execs(this shard)=%d", name, bound, stt.Execs)
	}
}

func verifC46Fine(t *testing.T, r *vh.Run) {
	bound := vh.Pick(r, 3, 4)
	for _, sc := range verifC46ConcScenarios {
		scen, check := verifC46ConcScenario(r, sc)
		st := vx.Explore(r, t, "conc-"+sc.name, scen, xplore.Options{Policy: xplore.Preempt, Bound: bound, LockPoints: true, MaxSteps: 600}, check)
		r.Note("FINE scenario %s: blobs %v mode %s readers %v: bound=%d execs(this shard)=%d maxdev=%d", sc.name, sc.layout, sc.mode, sc.readers, bound, st.Execs, st.MaxDev)
	}
	r.Extra("preemption_bound", fmt.Sprint(bound))
}

func TestVerif_C46(t *testing.T) {
	r := vh.Start(t, "C46")
	defer r.Finish()
	r.Rule("ENUM: every blob layout (<=4 blobs, sizes {0,1,2,5}) x content mode {distinct, repeated IDs} x node.Size {exact,0,total+3} x cache {64MiB, one blob, none} x every (offset<=total+2, size<=total+3), all reads of a variant in sequence on one open handle and one cache; " +
		"non-trivial read = spans a blob boundary, starts inside a blob, covers an empty blob or extends past the end (counted by construction; categories in counters). " +
		"OPENS: a second Open of the same node after an Open cancelled at each blob-size lookup, and two concurrent Opens with every lookup as scheduling point; " +
		"FINE: two readers on a shared handle with a one-blob cache, all orders of cache-mutex acquisitions and load completions within the preemption bound; non-trivial = execution with >= 2 switches between the readers; states = distinct schedules")
	r.Assume("the FUSE kernel/userspace transport is not exercised: handlers are called in-process with the request/response shapes the anacrolix/fuse server builds",
		"FINE part: accesses outside bloblru's critical sections are thread-local (free-running -race pass), LoadBlob never fails")
	verifC46Enum(t, r)
	verifC46Opens(t, r)
	verifC46Fine(t, r)
}

// TestVerifRace_C46 runs the concurrent bodies under the real scheduler for the race detector.
func TestVerifRace_C46(t *testing.T) {
	r := vh.Start(t, "C46")
	defer r.Finish()
	for round := 0; round < 150; round++ {
		sc := verifC46ConcScenarios[round%len(verifC46ConcScenarios)]
		st, h, err := verifC46ConcSetup(sc, nil)
		if err != nil {
			t.Fatal(err)
		}
		var wg gosync.WaitGroup
		for _, name := range verifC46ReaderNames(sc) {
			specs := sc.readers[name]
			wg.Add(1)
			go func() {
				defer wg.Done()
				for k := 0; k < 3; k++ {
					for _, sp := range specs {
						got, err, panicked, pmsg := verifC46Read(context.Background(), h, sp.off, sp.size)
						if want := verifC46Want(st.file, sp.off, sp.size); panicked || err != nil || !bytes.Equal(got, want) {
							r.Violation("", "C46|conc|free-running|"+sc.name, fmt.Sprintf("free-running pass: Read(%d,%d) = %v err=%v panic=%s, want %v", sp.off, sp.size, got, err, pmsg, want), nil)
						}
					}
				}
			}()
		}
		wg.Wait()
		r.Eval(1)
	}
}

package bloblru

// C47: the in-memory blob cache stays within its budget and returns correct
// blobs under any interleaving.
//
// Engine FINE: the "sync" import of this package is replaced by the vsync shim,
// so every c.mu.Lock() of a registered goroutine is a scheduling point; the
// compute callback is a gate whose answer {ok, big, err} is chosen by the
// explorer.  Preemption-bounded depth-first search over all schedules.
//
// Monitor (every scheduler step; all goroutines are parked outside critical
// sections then): 0 <= free <= size and size-free == sum(cap(blob)+overhead)
// over cached entries.  Oracle per call: err == nil ⇒ the returned blob is the
// value of that ID (every byte == id[0], non-empty); err != nil ⇒ this caller's
// own computation failed.  No deadlock, no panic.

import (
	"errors"
	"fmt"
	"strings"
	"testing"

	"github.com/restic/restic/internal/restic"
	"github.com/restic/restic/internal/verifshim/vh"
	"github.com/restic/restic/internal/verifshim/vx"
	"github.com/restic/restic/internal/verifshim/xplore"
)

type verifC47Call struct {
	id       byte
	computed bool
	answer   string
	blob     []byte
	err      error
	done     bool
}

type verifC47State struct {
	c        *Cache
	calls    map[string][]*verifC47Call
	bad      []string
	computes int
}

var errVerifC47 = errors.New("injected compute failure")

const verifC47Size = 250 // room for two 10-byte blobs (2*(10+96)=212), not three

func verifC47Scenario(prog map[string][]byte, r *vh.Run, name string) (xplore.Scenario, func(x *xplore.Exec)) {
	sc := xplore.Scenario{
		Start: func(x *xplore.Exec) {
			st := &verifC47State{c: New(verifC47Size), calls: map[string][]*verifC47Call{}}
			x.Data = st
			for g, ids := range prog {
				g, ids := g, ids
				for _, b := range ids {
					st.calls[g] = append(st.calls[g], &verifC47Call{id: b})
				}
				x.Go(g, func() {
					for i := range ids {
						call := st.calls[g][i]
						var id restic.ID
						id[0] = call.id
						blob, err := st.c.GetOrCompute(id, func() ([]byte, error) {
							call.computed = true
							a := x.Gate(xplore.Event{Key: fmt.Sprintf("%s:compute:%d:%c", g, i, call.id), Proc: g, Kind: "compute", Alts: []string{"ok", "big", "err"}})
							switch a {
							case 0:
								call.answer = "ok"
								// the same blob can arrive in buffers of different capacity (another pack copy,
								// a grown decompression buffer): the k-th computation of this execution gets k*8 spare bytes
								st.computes++
								v := make([]byte, 10, 10+8*st.computes)
								for k := range v {
									v[k] = call.id
								}
								return v, nil
							case 1:
								call.answer = "big"
								v := make([]byte, 300)
								for k := range v {
									v[k] = call.id
								}
								return v, nil
							default:
								call.answer = "err"
								return nil, errVerifC47
							}
						})
						call.blob, call.err, call.done = blob, err, true
					}
				})
			}
		},
		OnStep: func(x *xplore.Exec) {
			st := x.Data.(*verifC47State)
			// all goroutines are parked at lock points / gates / channel waits: no critical section is open
			c := st.c
			used := 0
			for _, k := range c.c.Keys() {
				b, _ := c.c.Peek(k)
				used += cap(b) + overhead
			}
			if c.free < 0 || c.free > c.size || c.size-c.free != used || used > c.size {
				st.bad = append(st.bad, fmt.Sprintf("step %d: size=%d free=%d but cached entries occupy %d bytes", x.StepNo, c.size, c.free, used))
			}
		},
	}
	check := func(x *xplore.Exec) {
		st := x.Data.(*verifC47State)
		var out []string
		contended := false
		for g, calls := range st.calls {
			for i, call := range calls {
				if !call.done {
					if !x.Deadlock && !x.Horizon && len(x.Panics) == 0 {
						st.bad = append(st.bad, fmt.Sprintf("%s call %d never returned", g, i))
					}
					continue
				}
				if call.err == nil {
					okv := len(call.blob) > 0
					for _, b := range call.blob {
						if b != call.id {
							okv = false
						}
					}
					if !okv {
						st.bad = append(st.bad, fmt.Sprintf("%s call %d for id %c returned wrong value %q", g, i, call.id, call.blob))
					}
				} else if !(call.computed && call.answer == "err") {
					st.bad = append(st.bad, fmt.Sprintf("%s call %d for id %c returned error %v although its own computation did not fail (computed=%v answer=%s)", g, i, call.id, call.err, call.computed, call.answer))
				}
				if !call.computed {
					contended = true
				}
				out = append(out, fmt.Sprintf("%s%d:%c:%v:%s", g, i, call.id, call.computed, call.answer))
			}
		}
		if x.Deadlock {
			st.bad = append(st.bad, "deadlock: unfinished goroutines but no enabled choice")
		}
		for _, p := range x.Panics {
			st.bad = append(st.bad, "panic: "+p)
		}
		sortStrings(out)
		r.Outcome(strings.Join(out, ","))
		r.State(strings.Join(x.Trace, ">"))
		if contended {
			r.Nontrivial(strings.Join(x.Trace, ">"))
		}
		if len(st.bad) > 0 {
			what := st.bad[0]
			kind := "oracle"
			switch {
			case strings.HasPrefix(what, "step "):
				kind = "budget-accounting"
			case strings.Contains(what, "wrong value"):
				kind = "wrong-value"
			case strings.Contains(what, "returned error"):
				kind = "foreign-error"
			case strings.HasPrefix(what, "deadlock"):
				kind = "deadlock"
			case strings.HasPrefix(what, "panic"):
				kind = "panic"
			}
			vx.Violation(r, name, x, "C47|"+kind+"|"+name, strings.Join(st.bad, "\n"), nil)
		}
	}
	return sc, check
}

func sortStrings(s []string) {
	for i := 1; i < len(s); i++ {
		for j := i; j > 0 && s[j] < s[j-1]; j-- {
			s[j], s[j-1] = s[j-1], s[j]
		}
	}
}

func TestVerif_C47(t *testing.T) {
	r := vh.Start(t, "C47")
	defer r.Finish()
	r.Rule("all schedules of c.mu acquisitions and compute answers {ok,big,err} of 3 goroutines within the preemption bound; non-trivial = an execution in which some caller got its value without computing it (joined another computation or hit the cache); states = distinct complete schedules")
	r.Assume("accesses outside critical sections are thread-local (checked by the separate free-running -race pass)",
		"channel operations (close(finish), <-waitForResult) are executed atomically with the preceding scheduling point")
	progs := map[string]map[string][]byte{
		"xx-y":    {"G1": {'x'}, "G2": {'x'}, "G3": {'y'}},
		"xy-xz-z": {"G1": {'x', 'y'}, "G2": {'x', 'z'}, "G3": {'z'}},
		"xyz-x":   {"G1": {'x', 'y'}, "G2": {'z', 'x'}},
		// three callers of one blob: after a failed computation both waiters recompute and add the same id twice
		"xxx": {"G1": {'x'}, "G2": {'x'}, "G3": {'x'}},
	}
	bound := vh.Pick(r, 2, 4)
	names := []string{"xx-y", "xy-xz-z", "xyz-x", "xxx"}
	for _, name := range names {
		sc, check := verifC47Scenario(progs[name], r, name)
		b := bound
		if name == "xxx" && b < 3 {
			b = 3 // a double add of one blob needs three preemptions (two waiters recomputing after a failure)
		}
		st := vx.Explore(r, t, name, sc, xplore.Options{Policy: xplore.Preempt, Bound: b, LockPoints: true, MaxSteps: 400}, check)
		r.Note("scenario %s: bound=%d execs(this shard)=%d maxdev=%d", name, b, st.Execs, st.MaxDev)
		r.Sample(map[string]any{"scenario": name, "program": fmt.Sprint(progs[name]), "preemption_bound": bound})
	}
	r.Extra("preemption_bound", bound)
}

// TestVerifRace_C47 runs the same bodies free (real scheduler) for the race detector.
func TestVerifRace_C47(t *testing.T) {
	r := vh.Start(t, "C47")
	defer r.Finish()
	for round := 0; round < 200; round++ {
		c := New(verifC47Size)
		done := make(chan struct{})
		for g := 0; g < 3; g++ {
			go func(g int) {
				defer func() { done <- struct{}{} }()
				for i := 0; i < 4; i++ {
					var id restic.ID
					id[0] = byte('x' + (g+i)%3)
					_, _ = c.GetOrCompute(id, func() ([]byte, error) {
						if (round+g+i)%5 == 0 {
							return nil, errVerifC47
						}
						return make([]byte, 10), nil
					})
				}
			}(g)
		}
		for g := 0; g < 3; g++ {
			<-done
		}
		r.Eval(1)
	}
}

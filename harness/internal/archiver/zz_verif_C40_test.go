package archiver

// C40: incremental backups store the same tree as full backups; and
// SkipIfUnchanged omits the snapshot exactly when a parent exists and its tree
// equals the new tree.
//
// Engine: explicit enumeration of edit histories on a complete in-memory
// fs.FS ("ModelFS": files with content/size/mtime/ctime/inode/mode, dirs,
// symlinks) that the real Archiver.Snapshot reads.  The repository is a real
// repository.Repository on the in-memory backend.
//
// Space: initial state /src/{a (file), b (file), d/ (dir), d/c (file of two
// chunks), l (symlink)}; edit alphabet (30 edits): for each of the files a and
// d/c {content+mtime only, content+mtime moved backwards, content+size only, content+ctime only,
// content+inode only, content with NO metadata change (negative control),
// touch, chmod, delete, rename, file->dir, file->symlink} plus {no-op, add
// /src/n, add /src/d/n, dir->file, remove dir, symlink->file}; histories of 1
// and 2 edits, every edit followed by a backup whose parent is the latest
// snapshot; ChangeIgnoreFlags in {0, ctime, inode, ctime|inode};
// SkipIfUnchanged in {false, true}; and for the 1-edit histories additionally a
// repository that lost all data blobs of the parent snapshot (only its trees
// and the snapshot exist), which is the situation allBlobsPresent guards.
//
// Quick tier: all 1-edit histories in full; 2-edit histories with flags 0 for
// all 30x30 pairs, and with ignore-ctime resp. ignore-inode for second edits
// that change content; thorough: everything.
//
// Oracle, for every backup with a parent for which the premise of the property
// holds (every regular file whose content differs from the parent snapshot's
// state also differs in size or mtime, or in ctime / inode unless the flags
// ignore them; a history is cut at the first backup that breaks the premise):
//   - tree ID = tree ID of a parent-less backup of the same ModelFS state into
//     a fresh repository with the same chunker polynomial;
//   - every file in the stored tree has exactly the model's content, and every
//     blob the tree references is present in the repository (so "the same
//     tree" is really stored, also when the parent's blobs are gone);
//   - SkipIfUnchanged: the snapshot is omitted  <=>  the parent-less trees of
//     the new state and of the parent snapshot's state are equal; a backup
//     without parent is never omitted.
// The negative control (content changed, no metadata changed) is executed and
// only recorded: it shows that the change detection really is in effect
// (incremental tree differs from the full tree there).
//
// Deviation from DESIGN: the harness works at the Archiver level (package
// archiver), so findParentSnapshot of cmd/restic is not involved: the parent
// is always the latest snapshot of the history, which is what it selects.

import (
	"bytes"
	"context"
	"crypto/sha256"
	"fmt"
	"io"
	"os"
	"path"
	"sort"
	"strings"
	"sync"
	"syscall"
	"testing"
	"time"

	"github.com/restic/restic/internal/data"
	"github.com/restic/restic/internal/fs"
	"github.com/restic/restic/internal/repository"
	"github.com/restic/restic/internal/restic"
	"github.com/restic/restic/internal/verifshim/vh"
)

// ---- ModelFS -----------------------------------------------------------------

type verifC40Entry struct {
	Kind     byte // 'f', 'd', 'l'
	Content  []byte
	Perm     os.FileMode
	MTime    int64
	CTime    int64
	Inode    uint64
	Target   string
	Children map[string]*verifC40Entry
}

func (e *verifC40Entry) clone() *verifC40Entry {
	c := *e
	if e.Children != nil {
		c.Children = make(map[string]*verifC40Entry, len(e.Children))
		for k, v := range e.Children {
			c.Children[k] = v.clone()
		}
	}
	return &c // Content is never modified in place
}

func (e *verifC40Entry) key(sb *strings.Builder, name string) {
	sum := sha256.Sum256(e.Content)
	fmt.Fprintf(sb, "%s:%c:%x:%o:%d:%d:%d:%s{", name, e.Kind, sum[:6], e.Perm, e.MTime, e.CTime, e.Inode, e.Target)
	names := make([]string, 0, len(e.Children))
	for n := range e.Children {
		names = append(names, n)
	}
	sort.Strings(names)
	for _, n := range names {
		e.Children[n].key(sb, n)
	}
	sb.WriteString("}")
}

type verifC40FS struct {
	root *verifC40Entry
}

var verifC40Epoch = time.Unix(1700000000, 0)

func (m *verifC40FS) lookup(name string) *verifC40Entry {
	name = path.Clean("/" + name)
	e := m.root
	if name == "/" {
		return e
	}
	for _, part := range strings.Split(name[1:], "/") {
		if e == nil || e.Kind != 'd' {
			return nil
		}
		e = e.Children[part]
	}
	return e
}

func (m *verifC40FS) stateKey() string {
	var sb strings.Builder
	m.root.key(&sb, "/")
	return sb.String()
}

func verifC40Info(name string, e *verifC40Entry) *fs.ExtendedFileInfo {
	fi := &fs.ExtendedFileInfo{
		Name:       path.Base(name),
		Mode:       e.Perm,
		DeviceID:   77,
		Inode:      e.Inode,
		Links:      1,
		UID:        1000,
		GID:        1000,
		BlockSize:  4096,
		ModTime:    verifC40Epoch.Add(time.Duration(e.MTime) * time.Second),
		ChangeTime: verifC40Epoch.Add(time.Duration(e.CTime) * time.Second),
		AccessTime: verifC40Epoch.Add(time.Duration(e.MTime) * time.Second),
	}
	switch e.Kind {
	case 'f':
		fi.Size = int64(len(e.Content))
	case 'd':
		fi.Mode |= os.ModeDir
	case 'l':
		fi.Mode |= os.ModeSymlink
		fi.Size = int64(len(e.Target))
	}
	return fi
}

func (m *verifC40FS) OpenFile(name string, flag int, _ bool) (fs.File, error) {
	e := m.lookup(name)
	if e == nil {
		return nil, &os.PathError{Op: "open", Path: name, Err: syscall.ENOENT}
	}
	return &verifC40File{name: path.Clean("/" + name), e: e}, nil
}

func (m *verifC40FS) Lstat(name string) (*fs.ExtendedFileInfo, error) {
	e := m.lookup(name)
	if e == nil {
		return nil, &os.PathError{Op: "lstat", Path: name, Err: syscall.ENOENT}
	}
	return verifC40Info(path.Clean("/"+name), e), nil
}
func (m *verifC40FS) Join(elem ...string) string   { return path.Join(elem...) }
func (m *verifC40FS) Separator() string            { return "/" }
func (m *verifC40FS) Abs(p string) (string, error) { return path.Clean("/" + p), nil }
func (m *verifC40FS) Clean(p string) string        { return path.Clean(p) }
func (m *verifC40FS) VolumeName(string) string     { return "" }
func (m *verifC40FS) IsAbs(p string) bool          { return strings.HasPrefix(p, "/") }
func (m *verifC40FS) Dir(p string) string          { return path.Dir(p) }
func (m *verifC40FS) Base(p string) string         { return path.Base(p) }

type verifC40File struct {
	name string
	e    *verifC40Entry
	pos  int
}

func (f *verifC40File) MakeReadable() error { return nil }
func (f *verifC40File) Close() error        { return nil }
func (f *verifC40File) Read(p []byte) (int, error) {
	if f.e.Kind != 'f' {
		return 0, &os.PathError{Op: "read", Path: f.name, Err: syscall.EISDIR}
	}
	if f.pos >= len(f.e.Content) {
		return 0, io.EOF
	}
	n := copy(p, f.e.Content[f.pos:])
	f.pos += n
	return n, nil
}
func (f *verifC40File) Readdirnames(int) ([]string, error) {
	if f.e.Kind != 'd' {
		return nil, &os.PathError{Op: "readdirent", Path: f.name, Err: syscall.ENOTDIR}
	}
	names := make([]string, 0, len(f.e.Children))
	for n := range f.e.Children {
		names = append(names, n)
	}
	sort.Sort(sort.Reverse(sort.StringSlice(names))) // a real readdir is not sorted either
	return names, nil
}
func (f *verifC40File) Stat() (*fs.ExtendedFileInfo, error) { return verifC40Info(f.name, f.e), nil }
func (f *verifC40File) ToNode(bool, func(string, ...any)) (*data.Node, error) {
	fi := verifC40Info(f.name, f.e)
	mask := os.ModePerm | os.ModeType | os.ModeSetuid | os.ModeSetgid | os.ModeSticky
	node := &data.Node{
		Path:       f.name,
		Name:       fi.Name,
		Mode:       fi.Mode & mask,
		ModTime:    fi.ModTime,
		AccessTime: fi.AccessTime,
		ChangeTime: fi.ChangeTime,
		Inode:      fi.Inode,
		DeviceID:   fi.DeviceID,
		UID:        fi.UID,
		GID:        fi.GID,
		User:       "verif",
		Group:      "verif",
	}
	switch f.e.Kind {
	case 'f':
		node.Type = data.NodeTypeFile
		node.Size = uint64(fi.Size)
		node.Links = 1
	case 'd':
		node.Type = data.NodeTypeDir
	case 'l':
		node.Type = data.NodeTypeSymlink
		node.LinkTarget = f.e.Target
		node.Links = 1
	}
	return node, nil
}

// ---- initial state and edits ---------------------------------------------------

func verifC40Pattern(tag byte, n int) []byte {
	b := make([]byte, n)
	for i := range b {
		b[i] = tag + byte(i%7)
	}
	return b
}

func verifC40Initial() *verifC40FS {
	big := make([]byte, 512*1024+300) // zeros split after 512 KiB: two chunks
	copy(big[512*1024+10:], "tail of d/c")
	file := func(content []byte, ino uint64) *verifC40Entry {
		return &verifC40Entry{Kind: 'f', Content: content, Perm: 0o644, MTime: 10, CTime: 10, Inode: ino}
	}
	dir := func(ino uint64, ch map[string]*verifC40Entry) *verifC40Entry {
		return &verifC40Entry{Kind: 'd', Perm: 0o755, MTime: 10, CTime: 10, Inode: ino, Children: ch}
	}
	src := dir(2, map[string]*verifC40Entry{
		"a": file(verifC40Pattern('a', 2000), 11),
		"b": file(verifC40Pattern('b', 300), 12),
		"d": dir(13, map[string]*verifC40Entry{"c": file(big, 14)}),
		"l": {Kind: 'l', Perm: 0o777, MTime: 10, CTime: 10, Inode: 15, Target: "a"},
	})
	return &verifC40FS{root: dir(1, map[string]*verifC40Entry{"src": src})}
}

type verifC40Edit struct {
	Name  string
	Apply func(m *verifC40FS, tick int64) bool // false: not applicable in this state
}

func verifC40Edits() []verifC40Edit {
	var edits []verifC40Edit
	edits = append(edits, verifC40Edit{"noop", func(*verifC40FS, int64) bool { return true }})

	parentOf := func(m *verifC40FS, p string) (*verifC40Entry, string) {
		d := m.lookup(path.Dir(p))
		if d == nil || d.Kind != 'd' {
			return nil, ""
		}
		return d, path.Base(p)
	}
	flip := func(c []byte) []byte {
		n := append([]byte(nil), c...)
		n[len(n)-1] ^= 0x55
		return n
	}
	onFile := func(target, name string, f func(d *verifC40Entry, base string, e *verifC40Entry, tick int64)) {
		edits = append(edits, verifC40Edit{name + "(" + target + ")", func(m *verifC40FS, tick int64) bool {
			d, base := parentOf(m, "/src/"+target)
			if d == nil {
				return false
			}
			e := d.Children[base]
			if e == nil || e.Kind != 'f' {
				return false
			}
			f(d, base, e, tick)
			return true
		}})
	}
	for _, target := range []string{"a", "d/c"} {
		onFile(target, "content+mtime", func(_ *verifC40Entry, _ string, e *verifC40Entry, tick int64) {
			e.Content, e.MTime = flip(e.Content), 100+tick
		})
		onFile(target, "content+mtime-back", func(_ *verifC40Entry, _ string, e *verifC40Entry, tick int64) {
			// an older revision put back in place (cp -p, rsync -t, tar x): the mtime moves backwards
			e.Content, e.MTime = flip(e.Content), e.MTime-10-tick
		})
		onFile(target, "content+size", func(_ *verifC40Entry, _ string, e *verifC40Entry, tick int64) {
			e.Content = append(append([]byte(nil), e.Content...), byte('0'+tick))
		})
		onFile(target, "content+ctime", func(_ *verifC40Entry, _ string, e *verifC40Entry, tick int64) {
			e.Content, e.CTime = flip(e.Content), 100+tick
		})
		onFile(target, "content+inode", func(_ *verifC40Entry, _ string, e *verifC40Entry, tick int64) {
			e.Content, e.Inode = flip(e.Content), e.Inode+1000*uint64(tick)
		})
		onFile(target, "content-only", func(_ *verifC40Entry, _ string, e *verifC40Entry, tick int64) {
			e.Content = flip(e.Content)
		})
		onFile(target, "touch", func(_ *verifC40Entry, _ string, e *verifC40Entry, tick int64) {
			e.MTime, e.CTime = 100+tick, 100+tick
		})
		onFile(target, "chmod", func(_ *verifC40Entry, _ string, e *verifC40Entry, tick int64) {
			e.Perm, e.CTime = e.Perm^0o011, 100+tick
		})
		onFile(target, "delete", func(d *verifC40Entry, base string, _ *verifC40Entry, tick int64) {
			delete(d.Children, base)
			d.MTime, d.CTime = 100+tick, 100+tick
		})
		onFile(target, "rename", func(d *verifC40Entry, base string, e *verifC40Entry, tick int64) {
			delete(d.Children, base)
			d.Children[base+"2"] = e
			e.CTime = 100 + tick
			d.MTime, d.CTime = 100+tick, 100+tick
		})
		onFile(target, "file->dir", func(d *verifC40Entry, base string, e *verifC40Entry, tick int64) {
			d.Children[base] = &verifC40Entry{Kind: 'd', Perm: 0o755, MTime: 100 + tick, CTime: 100 + tick, Inode: 500 + uint64(tick),
				Children: map[string]*verifC40Entry{"x": {Kind: 'f', Content: verifC40Pattern('x', 50), Perm: 0o600, MTime: 100 + tick, CTime: 100 + tick, Inode: 600 + uint64(tick)}}}
			d.MTime, d.CTime = 100+tick, 100+tick
		})
		onFile(target, "file->symlink", func(d *verifC40Entry, base string, e *verifC40Entry, tick int64) {
			d.Children[base] = &verifC40Entry{Kind: 'l', Perm: 0o777, MTime: 100 + tick, CTime: 100 + tick, Inode: 700 + uint64(tick), Target: "b"}
			d.MTime, d.CTime = 100+tick, 100+tick
		})
	}
	add := func(dirPath string) verifC40Edit {
		return verifC40Edit{"add(" + dirPath + "/n)", func(m *verifC40FS, tick int64) bool {
			d := m.lookup("/src/" + dirPath)
			if d == nil || d.Kind != 'd' || d.Children["n"] != nil {
				return false
			}
			d.Children["n"] = &verifC40Entry{Kind: 'f', Content: verifC40Pattern('n', 700), Perm: 0o640, MTime: 100 + tick, CTime: 100 + tick, Inode: 800 + uint64(tick)}
			d.MTime, d.CTime = 100+tick, 100+tick
			return true
		}}
	}
	edits = append(edits, add("."), add("d"))
	edits = append(edits, verifC40Edit{"dir->file(d)", func(m *verifC40FS, tick int64) bool {
		s := m.lookup("/src")
		if e := s.Children["d"]; e == nil || e.Kind != 'd' {
			return false
		}
		s.Children["d"] = &verifC40Entry{Kind: 'f', Content: verifC40Pattern('D', 123), Perm: 0o644, MTime: 100 + tick, CTime: 100 + tick, Inode: 900 + uint64(tick)}
		s.MTime, s.CTime = 100+tick, 100+tick
		return true
	}})
	edits = append(edits, verifC40Edit{"rmdir(d)", func(m *verifC40FS, tick int64) bool {
		s := m.lookup("/src")
		if e := s.Children["d"]; e == nil || e.Kind != 'd' {
			return false
		}
		delete(s.Children, "d")
		s.MTime, s.CTime = 100+tick, 100+tick
		return true
	}})
	edits = append(edits, verifC40Edit{"symlink->file(l)", func(m *verifC40FS, tick int64) bool {
		s := m.lookup("/src")
		if e := s.Children["l"]; e == nil || e.Kind != 'l' {
			return false
		}
		s.Children["l"] = &verifC40Entry{Kind: 'f', Content: verifC40Pattern('L', 64), Perm: 0o644, MTime: 100 + tick, CTime: 100 + tick, Inode: 950 + uint64(tick)}
		s.MTime, s.CTime = 100+tick, 100+tick
		return true
	}})
	return edits
}

// verifC40Files lists all regular files of a state by path.
func verifC40Files(e *verifC40Entry, p string, out map[string]*verifC40Entry) {
	switch e.Kind {
	case 'f':
		out[p] = e
	case 'd':
		for n, c := range e.Children {
			verifC40Files(c, path.Join(p, n), out)
		}
	}
}

// verifC40Premise reports whether every file whose content differs between the
// parent snapshot's state and the new state also differs in metadata that the
// flags do not ignore.
// Settings as the user states them (doc/040_backup.rst): --ignore-ctime ignores the ctime only,
// --ignore-inode ignores inode and ctime.  The premise is evaluated on these, the archiver gets the
// flag value that cmd/restic computes for them (the raw inode-only value for completeness).
const (
	verifC40IgnCtime uint = 1
	verifC40IgnInode uint = 2
)

func verifC40RealFlags(setting uint) uint {
	var f uint
	if setting&verifC40IgnCtime != 0 {
		f |= ChangeIgnoreCtime
	}
	if setting&verifC40IgnInode != 0 {
		f |= ChangeIgnoreInode
	}
	return f
}

func verifC40Premise(parent, cur *verifC40FS, flags uint) (bool, string) {
	pf, cf := map[string]*verifC40Entry{}, map[string]*verifC40Entry{}
	verifC40Files(parent.root, "/", pf)
	verifC40Files(cur.root, "/", cf)
	for p, c := range cf {
		o := pf[p]
		if o == nil || bytes.Equal(o.Content, c.Content) {
			continue
		}
		detectable := len(o.Content) != len(c.Content) || o.MTime != c.MTime ||
			(flags&verifC40IgnCtime == 0 && o.CTime != c.CTime) ||
			(flags&verifC40IgnInode == 0 && o.Inode != c.Inode)
		if !detectable {
			return false, p
		}
	}
	return true, ""
}

// ---- backups -------------------------------------------------------------------

type verifC40Backup struct {
	sn     *data.Snapshot
	tree   restic.ID
	errors []string
	err    error
}

// verifC40Repo hands the archiver the repository's real chunkers but reports a
// maximum chunk size of 1 MiB, which only sizes the file saver's buffer pool
// (8 MiB buffers are allocated and zeroed anew for every Snapshot call, which
// dominated the run time); all files of the model have chunks < 1 MiB.
type verifC40Repo struct{ *repository.Repository }

type verifC40Factory struct{ restic.ChunkerFactory }

func (verifC40Factory) MaxChunkSize() int { return 1 << 20 }

func (r verifC40Repo) ChunkerFactory() restic.ChunkerFactory {
	return verifC40Factory{r.Repository.ChunkerFactory()}
}

func verifC40Snapshot(repo *repository.Repository, m *verifC40FS, parent *data.Snapshot, flags uint, skip bool) verifC40Backup {
	arch := New(verifC40Repo{repo}, m, Options{ReadConcurrency: 1, SaveTreeConcurrency: 2})
	arch.ChangeIgnoreFlags = verifC40RealFlags(flags)
	var res verifC40Backup
	var mu sync.Mutex
	arch.Error = func(item string, err error) error {
		mu.Lock()
		res.errors = append(res.errors, fmt.Sprintf("%s: %v", item, err))
		mu.Unlock()
		return nil
	}
	sn, _, _, err := arch.Snapshot(context.Background(), []string{"/src"}, SnapshotOptions{
		Time: verifC40Epoch.Add(1000 * time.Second), BackupStart: verifC40Epoch, Hostname: "verif",
		ParentSnapshot: parent, SkipIfUnchanged: skip,
	})
	res.sn, res.err = sn, err
	if sn != nil && sn.Tree != nil {
		res.tree = *sn.Tree
	}
	return res
}

// verifC40Verify walks the stored tree and compares it with the model: names,
// types, file contents; every referenced blob must be in the index.
func verifC40Verify(repo *repository.Repository, id restic.ID, e *verifC40Entry, p string) string {
	ctx := context.Background()
	if _, ok := repo.LookupBlobSize(restic.BlobHandle{Type: restic.TreeBlob, ID: id}); !ok {
		return fmt.Sprintf("tree %s of %s is not in the repository index", id.Str(), p)
	}
	it, err := data.LoadTree(ctx, repo, id)
	if err != nil {
		return fmt.Sprintf("tree %s of %s cannot be loaded: %v", id.Str(), p, err)
	}
	seen := map[string]bool{}
	for item := range it {
		if item.Error != nil {
			return fmt.Sprintf("tree of %s: %v", p, item.Error)
		}
		n := item.Node
		c := e.Children[n.Name]
		cp := path.Join(p, n.Name)
		if c == nil {
			return fmt.Sprintf("%s is in the snapshot but not in the source", cp)
		}
		seen[n.Name] = true
		switch c.Kind {
		case 'f':
			if n.Type != data.NodeTypeFile {
				return fmt.Sprintf("%s has type %s, the source is a file", cp, n.Type)
			}
			var buf []byte
			for _, bid := range n.Content {
				if _, ok := repo.LookupBlobSize(restic.BlobHandle{Type: restic.DataBlob, ID: bid}); !ok {
					return fmt.Sprintf("data blob %s of %s is not in the repository index", bid.Str(), cp)
				}
				b, err := repo.LoadBlob(ctx, restic.BlobHandle{Type: restic.DataBlob, ID: bid}, nil)
				if err != nil {
					return fmt.Sprintf("data blob %s of %s cannot be loaded: %v", bid.Str(), cp, err)
				}
				buf = append(buf, b...)
			}
			if !bytes.Equal(buf, c.Content) || n.Size != uint64(len(c.Content)) {
				return fmt.Sprintf("%s: stored content (%d bytes, node size %d) differs from the source content (%d bytes)", cp, len(buf), n.Size, len(c.Content))
			}
		case 'd':
			if n.Type != data.NodeTypeDir || n.Subtree == nil {
				return fmt.Sprintf("%s has type %s, the source is a directory", cp, n.Type)
			}
			if msg := verifC40Verify(repo, *n.Subtree, c, cp); msg != "" {
				return msg
			}
		case 'l':
			if n.Type != data.NodeTypeSymlink || n.LinkTarget != c.Target {
				return fmt.Sprintf("%s has type %s target %q, the source is a symlink to %q", cp, n.Type, n.LinkTarget, c.Target)
			}
		}
	}
	for name := range e.Children {
		if !seen[name] {
			return fmt.Sprintf("%s is in the source but not in the snapshot", path.Join(p, name))
		}
	}
	return ""
}

// verifC40TreesOnly builds a repository that contains the snapshot sn and all
// of its tree blobs but none of its data blobs.
func verifC40TreesOnly(t *testing.T, src *repository.Repository, sn *data.Snapshot) (*repository.Repository, *data.Snapshot) {
	ctx := context.Background()
	dst, _ := repository.TestRepositoryWithBackend(t, nil, 0, repository.Options{})
	var trees []restic.ID
	var walk func(id restic.ID)
	walk = func(id restic.ID) {
		trees = append(trees, id)
		it, err := data.LoadTree(ctx, src, id)
		if err != nil {
			t.Fatalf("C40: load tree: %v", err)
		}
		for item := range it {
			if item.Error != nil {
				t.Fatalf("C40: tree: %v", item.Error)
			}
			if item.Node.Type == data.NodeTypeDir && item.Node.Subtree != nil {
				walk(*item.Node.Subtree)
			}
		}
	}
	walk(*sn.Tree)
	if err := dst.WithBlobUploader(ctx, func(ctx context.Context, up restic.BlobSaverWithAsync) error {
		for _, id := range trees {
			buf, err := src.LoadBlob(ctx, restic.BlobHandle{Type: restic.TreeBlob, ID: id}, nil)
			if err != nil {
				return err
			}
			if _, _, _, err := up.SaveBlob(ctx, restic.TreeBlob, buf, id, false); err != nil {
				return err
			}
		}
		return nil
	}); err != nil {
		t.Fatalf("C40: copy trees: %v", err)
	}
	cp := *sn
	id, err := data.SaveSnapshot(ctx, dst, &cp)
	if err != nil {
		t.Fatalf("C40: save snapshot: %v", err)
	}
	loaded, err := data.LoadSnapshot(ctx, dst, id)
	if err != nil {
		t.Fatalf("C40: load snapshot: %v", err)
	}
	return dst, loaded
}

type verifC40History struct {
	Edits       []string `json:"edits"`
	Flags       string   `json:"ignore_flags"`
	Skip        bool     `json:"skip_if_unchanged"`
	LostBlobs   bool     `json:"parent_data_blobs_lost"`
	FailingStep int      `json:"failing_step,omitempty"`
}

func TestVerif_C40(t *testing.T) {
	r := vh.Start(t, "C40")
	defer r.Finish()
	r.Rule("histories of 1..2 edits from a 30-edit alphabet on an in-memory ModelFS, each edit followed by Archiver.Snapshot with the latest snapshot as parent, x ChangeIgnoreFlags {0,ctime,inode,both} x SkipIfUnchanged x (1-edit histories) parent data blobs lost; non-trivial = a backup with a parent for which the premise holds and at least one file existed unchanged-by-metadata in the parent (its content is taken over from the parent) or the parent's blobs are missing")
	r.Assume("the ModelFS (harness) implements fs.FS faithfully: Stat and ToNode agree; nodes are built like internal/fs builds them, without xattrs/generic attributes",
		"the chunker polynomial is the fixed test polynomial for all repositories (repository.TestRepositoryWithBackend), i.e. 'same polynomial' holds by construction")

	verifC40Live(t, r)

	edits := verifC40Edits()
	flagSets := []uint{0, verifC40IgnCtime, verifC40IgnInode, verifC40IgnCtime | verifC40IgnInode}
	flagName := map[uint]string{0: "none", verifC40IgnCtime: "ignore-ctime", verifC40IgnInode: "ignore-inode", verifC40IgnCtime | verifC40IgnInode: "ignore-ctime+inode"}
	if uint(ChangeIgnoreCtime)&uint(ChangeIgnoreInode) != 0 {
		// the raw inode-only value is not reachable from the command line (--ignore-inode sets both);
		// if the two constants are not independent bits it has no meaning of its own
		flagSets = []uint{0, verifC40IgnCtime, verifC40IgnCtime | verifC40IgnInode}
		r.Note("ChangeIgnoreCtime and ChangeIgnoreInode overlap: the raw inode-only setting is not run")
	}

	// parent-less reference backups, cached by canonical state
	fullCache := map[string]restic.ID{}
	fullTree := func(m *verifC40FS) restic.ID {
		k := m.stateKey()
		if id, ok := fullCache[k]; ok {
			return id
		}
		repo, _ := repository.TestRepositoryWithBackend(t, nil, 0, repository.Options{})
		b := verifC40Snapshot(repo, m, nil, 0, false)
		if b.err != nil || b.sn == nil || len(b.errors) > 0 {
			t.Fatalf("C40: reference backup failed: %v %v", b.err, b.errors)
		}
		if msg := verifC40Verify(repo, b.tree, m.root, "/"); msg != "" {
			t.Fatalf("C40: reference backup is wrong: %s", msg)
		}
		r.State(k)
		fullCache[k] = b.tree
		return b.tree
	}

	// Every Snapshot() call of the real code allocates fresh 8 MiB chunk buffers;
	// to keep that cost down all histories of one case key share one repository
	// that holds the initial parent-less snapshot (later snapshots of other
	// histories only add blobs, which cannot make an incremental backup "more
	// correct": changed files are re-read whatever the index contains).
	var baseRepo *repository.Repository
	var baseSn *data.Snapshot
	prepareBase := func(ck string) bool {
		state := verifC40Initial()
		baseRepo, _ = repository.TestRepositoryWithBackend(t, nil, 0, repository.Options{})
		first := verifC40Snapshot(baseRepo, state, nil, 0, false)
		r.Transition(1)
		if first.err != nil || first.sn == nil || len(first.errors) > 0 {
			r.Violationf(ck, "C40|initial", nil, "parent-less backup failed: sn=%v err=%v errors=%v", first.sn != nil, first.err, first.errors)
			return false
		}
		if want := fullTree(state); first.tree != want {
			r.Violationf(ck, "C40|initial-tree", nil, "two parent-less backups of the same state have different trees %s / %s", first.tree.Str(), want.Str())
			return false
		}
		baseSn = first.sn
		// a parent-less backup is never omitted, whatever SkipIfUnchanged says
		for _, flags := range flagSets {
			repo, _ := repository.TestRepositoryWithBackend(t, nil, 0, repository.Options{})
			b := verifC40Snapshot(repo, state, nil, flags, true)
			r.Transition(1)
			if b.err != nil || b.sn == nil || b.tree != first.tree {
				r.Violationf(ck, "C40|initial-skip|flags="+flagName[flags], nil, "parent-less backup with SkipIfUnchanged: created=%v err=%v tree-equal=%v", b.sn != nil, b.err, b.tree == first.tree)
				return false
			}
		}
		return true
	}

	runHistory := func(ck string, seq []int, flags uint, skip, lost bool) {
		h := verifC40History{Flags: flagName[flags], Skip: skip, LostBlobs: lost}
		for _, i := range seq {
			h.Edits = append(h.Edits, edits[i].Name)
		}
		hkey := fmt.Sprintf("C40|%s|flags=%s|skip=%v|lost=%v", strings.Join(h.Edits, ","), h.Flags, skip, lost)

		state := verifC40Initial()
		repo := baseRepo
		first := verifC40Backup{sn: baseSn}
		parentSn, parentState := first.sn, state
		r.Eval(1)

		for step, ei := range seq {
			next := &verifC40FS{root: state.root.clone()}
			if !edits[ei].Apply(next, int64(step+1)) {
				return // edit not applicable: this history does not exist
			}
			state = next
			h.FailingStep = step + 1
			skey := fmt.Sprintf("%s|step%d", hkey, step+1)

			useRepo, useParent := repo, parentSn
			if lost && step == 0 {
				useRepo, useParent = verifC40TreesOnly(t, repo, parentSn)
				repo = useRepo
			}
			var b verifC40Backup
			if p, msg := vh.NoPanic(func() { b = verifC40Snapshot(useRepo, state, useParent, flags, skip) }); p {
				r.Violationf(ck, skey+"|panic", h, "Snapshot panicked: %s", msg)
				return
			}
			r.Transition(1)
			r.Trace(1)
			if b.err != nil {
				r.Violationf(ck, skey+"|failed", h, "backup with parent failed: %v", b.err)
				return
			}
			skipped := b.sn == nil
			if skipped && !skip {
				r.Violationf(ck, skey+"|omitted", h, "no snapshot was created although SkipIfUnchanged is not set")
				return
			}

			ok, culprit := verifC40Premise(parentState, state, flags)
			if !ok {
				// negative control: only record what happened, then cut the history
				res := "skipped"
				if !skipped {
					res = fmt.Sprintf("tree-equals-full=%v", b.tree == fullTree(state))
				}
				r.Outcome("premise-false:" + res)
				r.Count("premise_false_steps", 1)
				_ = culprit
				return
			}

			want := fullTree(state)
			wantSkip := skip && want == fullTree(parentState)
			r.Outcome(fmt.Sprintf("premise-true:skipped=%v:errors=%d", skipped, len(b.errors)))
			// non-trivial: some file is taken over from the parent, or blobs are lost
			pf, cf := map[string]*verifC40Entry{}, map[string]*verifC40Entry{}
			verifC40Files(parentState.root, "/", pf)
			verifC40Files(state.root, "/", cf)
			for p, c := range cf {
				if o := pf[p]; o != nil && len(o.Content) == len(c.Content) && o.MTime == c.MTime {
					r.Nontrivial(skey)
					break
				}
			}
			if len(b.errors) > 0 && !(lost && step == 0) {
				r.Violationf(ck, skey+"|errors", h, "backup of a fully readable source reported errors: %v", b.errors)
			}
			if skipped != wantSkip {
				r.Violationf(ck, skey+"|skip", h, "SkipIfUnchanged=%v: snapshot omitted=%v, but parent-less trees of the parent state and the new state are equal=%v", skip, skipped, want == fullTree(parentState))
				return
			}
			if skipped {
				continue // parent snapshot and parent state stay
			}
			if b.tree != want {
				msg := verifC40Verify(useRepo, b.tree, state.root, "/")
				r.Violationf(ck, skey+"|tree", h, "backup with parent produced tree %s, the parent-less backup of the same state %s; stored tree vs source: %s", b.tree.Str(), want.Str(), msg)
				return
			}
			if msg := verifC40Verify(useRepo, b.tree, state.root, "/"); msg != "" {
				r.Violationf(ck, skey+"|stored", h, "tree ID equals the parent-less backup but the repository does not hold that tree: %s", msg)
				return
			}
			if lost && step == 0 {
				r.Count("lost_blob_backups", 1)
			}
			parentSn, parentState = b.sn, state
		}
		if len(h.Edits) == 2 && h.Edits[0] == "touch(a)" && h.Edits[1] == "content+size(d/c)" && flags == 0 && !skip {
			r.Sample(map[string]any{"history": h, "final_tree": parentSn.Tree.Str()})
		}
	}

	// quick tier: 2-edit histories with flags 0 and all second edits, and with
	// ignore-ctime / ignore-inode for the second edits that change file content
	contentEdit := func(j int) bool { return strings.HasPrefix(edits[j].Name, "content") }
	for i := range edits {
		ck := edits[i].Name
		if !r.Case(ck) {
			continue
		}
		if !prepareBase(ck) {
			continue
		}
		for _, flags := range flagSets {
			for _, skip := range []bool{false, true} {
				if r.Expired() {
					return
				}
				runHistory(ck, []int{i}, flags, skip, false)
				runHistory(ck, []int{i}, flags, skip, true)
				for j := range edits {
					if !r.Thorough() {
						if skip || flags == verifC40IgnCtime|verifC40IgnInode || (flags != 0 && !contentEdit(j)) {
							continue
						}
					}
					runHistory(ck, []int{i, j}, flags, skip, false)
				}
			}
		}
	}
}

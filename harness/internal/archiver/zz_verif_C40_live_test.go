package archiver

// C40 part 2: a file that is rewritten while an incremental backup runs.
//
// The real fs.Local on a scratch directory is wrapped by an fs.FS that rewrites one file in place (same
// size, other content, other mtime) right after the k-th Stat / Lstat answer the archiver got for it, for
// every k the backup issues ("the environment changes between two observations" at every position).  What
// that backup stores for the file is not prescribed.  Afterwards the source is quiescent: an incremental
// backup with the live-edited snapshot as parent must store the same tree as a backup without parent.

import (
	"context"
	"fmt"
	"os"
	"path/filepath"
	"sync"
	"testing"
	"time"

	"github.com/restic/restic/internal/data"
	"github.com/restic/restic/internal/fs"
	"github.com/restic/restic/internal/repository"
	"github.com/restic/restic/internal/restic"
	"github.com/restic/restic/internal/verifshim/vh"
)

type verifC40LiveFS struct {
	fs.FS
	mu     sync.Mutex
	target string
	at     int // rewrite after the at-th observation (0 = never)
	seen   int
	edit   func()
}

func (l *verifC40LiveFS) observed(name string) {
	if name != l.target {
		return
	}
	l.mu.Lock()
	l.seen++
	fire := l.at > 0 && l.seen == l.at
	l.mu.Unlock()
	if fire {
		l.edit()
	}
}

func (l *verifC40LiveFS) Lstat(name string) (*fs.ExtendedFileInfo, error) {
	fi, err := l.FS.Lstat(name)
	l.observed(name)
	return fi, err
}

func (l *verifC40LiveFS) OpenFile(name string, flag int, metadataOnly bool) (fs.File, error) {
	f, err := l.FS.OpenFile(name, flag, metadataOnly)
	if err != nil {
		return nil, err
	}
	return &verifC40LiveFile{File: f, l: l, name: name}, nil
}

type verifC40LiveFile struct {
	fs.File
	l    *verifC40LiveFS
	name string
}

func (f *verifC40LiveFile) Stat() (*fs.ExtendedFileInfo, error) {
	fi, err := f.File.Stat()
	f.l.observed(f.name)
	return fi, err
}

func verifC40Live(t *testing.T, r *vh.Run) {
	if !r.Case("live-edit") {
		return
	}
	r.Rule("part 2: real fs.Local; one file is rewritten in place (same size, other content and mtime) after the k-th Stat/Lstat answer of an incremental backup, for every k; then, on the quiescent source, backup with that snapshot as parent == backup without parent")
	src := filepath.Join(r.Scratch, "c40live")
	target := filepath.Join(src, "a")
	write := func(version byte, mtime time.Time) {
		buf := make([]byte, 3000)
		for i := range buf {
			buf[i] = byte(i%251) ^ version
		}
		f, err := os.OpenFile(target, os.O_WRONLY|os.O_CREATE, 0o644) // in place: same inode
		if err != nil {
			t.Fatal(err)
		}
		if _, err := f.Write(buf); err != nil {
			t.Fatal(err)
		}
		_ = f.Close()
		if err := os.Chtimes(target, mtime, mtime); err != nil {
			t.Fatal(err)
		}
	}
	backup := func(repo *repository.Repository, fsys fs.FS, parent *data.Snapshot) (*data.Snapshot, error) {
		arch := New(verifC40Repo{repo}, fsys, Options{ReadConcurrency: 1, SaveTreeConcurrency: 1})
		arch.Error = func(item string, err error) error { return err }
		sn, _, _, err := arch.Snapshot(context.Background(), []string{src}, SnapshotOptions{Time: verifC40Epoch.Add(2000 * time.Second), Hostname: "verif", ParentSnapshot: parent})
		return sn, err
	}
	t0 := time.Date(2020, 1, 1, 0, 0, 0, 0, time.UTC)
	for k := 1; k <= 8; k++ {
		_ = os.RemoveAll(src)
		if err := os.MkdirAll(src, 0o755); err != nil {
			t.Fatal(err)
		}
		if err := os.WriteFile(filepath.Join(src, "b"), []byte("unrelated"), 0o644); err != nil {
			t.Fatal(err)
		}
		write(0, t0)
		repo, _ := repository.TestRepositoryWithBackend(t, nil, 0, repository.Options{})
		s0, err := backup(repo, fs.NewLocal(), nil)
		if err != nil || s0 == nil {
			t.Fatalf("C40 live: first backup: %v", err)
		}
		live := &verifC40LiveFS{FS: fs.NewLocal(), target: target, at: k}
		live.edit = func() { write(0x5a, t0.Add(time.Hour)) }
		s1, err := backup(repo, live, s0)
		r.Eval(1)
		r.Trace(1)
		if live.seen < k {
			r.Outcome(fmt.Sprintf("live-edit k=%d beyond the %d observations of the file", k, live.seen))
			break
		}
		r.NontrivialByConstruction(1)
		if err != nil || s1 == nil {
			// a backup that notices the change and fails is acceptable; nothing to continue from
			r.Outcome(fmt.Sprintf("live-edit k=%d backup failed: %v", k, err))
			continue
		}
		// quiescent from here on
		s2, err := backup(repo, fs.NewLocal(), s1)
		if err != nil || s2 == nil {
			r.Violation("live-edit", fmt.Sprintf("C40|live-edit|k=%d|incremental-failed", k), fmt.Sprintf("incremental backup of the quiescent source failed: %v", err), nil)
			continue
		}
		repoF, _ := repository.TestRepositoryWithBackend(t, nil, 0, repository.Options{})
		sf, err := backup(repoF, fs.NewLocal(), nil)
		if err != nil || sf == nil {
			t.Fatalf("C40 live: full backup: %v", err)
		}
		if !s2.Tree.Equal(*sf.Tree) {
			what := ""
			if n := verifC40LiveNode(repo, *s2.Tree, src, "a"); n != nil {
				what = fmt.Sprintf("; the incremental snapshot lists a with mtime %v and %d content blobs", n.ModTime.UTC().Format(time.RFC3339), len(n.Content))
			}
			r.Violation("live-edit", fmt.Sprintf("C40|live-edit|k=%d|tree", k),
				fmt.Sprintf("file a was rewritten in place after the %d-th Stat/Lstat answer of an incremental backup; afterwards, with the source unchanged, the incremental backup (parent = that snapshot) stores tree %s, a backup without parent stores %s%s", k, s2.Tree.Str(), sf.Tree.Str(), what), nil)
		} else {
			r.Outcome(fmt.Sprintf("live-edit k=%d equal", k))
		}
	}
}

// verifC40LiveNode finds the node of file name below the directory dir (absolute path) in tree.
func verifC40LiveNode(repo *repository.Repository, tree restic.ID, dir, name string) *data.Node {
	ctx := context.Background()
	id, err := data.FindTreeDirectory(ctx, repo, &tree, filepath.ToSlash(dir))
	if err != nil {
		return nil
	}
	it, err := data.LoadTree(ctx, repo, *id)
	if err != nil {
		return nil
	}
	for item := range it {
		if item.Error == nil && item.Node.Name == name {
			return item.Node
		}
	}
	return nil
}

package archiver

// C17: content-defined chunking is lossless, bounded and shift-resistant.
//
// The real fileSaver (newFileSaver with ONE worker, so `chnker` and
// `chunkState` are reused for all files of a saver) is driven with in-memory
// fs.File objects whose Read behaviour is controlled, and a fake
// restic.BlobSaverAsync that holds every chunk back until the next chunk has
// been submitted (resp. reading finished) and only then hashes it -- exactly
// what an asynchronous uploader is allowed to do -- so a chunk buffer that is
// reused too early is visible as a wrong chunk hash.
//
// Space
//   A  single files: polynomial x content kind x size x reader behaviour
//        contents: zeros, period-p (p in 1,2,64,4099), LCG seeds 0..7, LCG data with two long
//                  runs of zeros that start in the middle of a chunk (holes)
//        sizes   : 0, 1, 512Ki-1/+0/+1, 1Mi-1/+0/+1, 1.5Mi-1/+0/+1,
//                  8Mi-1/+0/+1, 8Mi+512Ki, 20Mi
//        readers : full, fixed 7 / 4096 / 512Ki-1 / 512Ki / 512Ki+1,
//                  fixed 1 (files <= 1.5Mi+1), alternating 1/65536,
//                  full with (n, EOF) together, 4096 with (n, EOF) together
//        quick tier: polynomial A, 4 content kinds, files >= 8 MiB with 5 of
//        the 10 readers; thorough: two polynomials, 15 content kinds, all.
//        The reader variants of one (polynomial, content, size) go through the
//        same worker one after the other.
//   B  sequences of 1..3 files (all ordered pairs/triples over 8 small files,
//      one of which fails with a read error in the middle) through one worker
//   C  edits: insert/delete 1, 17, 4096 bytes at start/middle/end of a 6 MiB
//      LCG file.
//
// Oracle (for every successfully saved file)
//   - node.Size = file size, sum of chunk lengths = file size, and the hash of
//     chunk i equals the hash of the corresponding slice of the content
//     (concatenation of the chunks is the file);
//   - every chunk but the last has MinSize <= len <= MaxSize, the last one
//     1 <= len <= MaxSize; an empty file has no chunks;
//   - the chunk lengths equal those of an independent run of the reference
//     implementation chunker.New(bytes.Reader(content), pol).Next over the whole
//     content (hence boundaries do not depend on read sizes or earlier files);
//   - C: chunks that end at or before the edit position are unchanged, and from
//     the first chunk boundary after the edit that both versions share (in
//     shifted coordinates) all later chunks are identical.  The number of
//     chunks that differ is recorded as an outcome; no bound on it is asserted
//     because resynchronisation is a statistical property of the (trusted)
//     chunker library, while the boundaries themselves are pinned by the
//     reference comparison.

import (
	"bytes"
	"context"
	"errors"
	"fmt"
	"io"
	"os"
	"runtime/debug"
	"syscall"
	"testing"

	"github.com/restic/chunker"
	"github.com/restic/restic/internal/backend/mem"
	"github.com/restic/restic/internal/data"
	"github.com/restic/restic/internal/fs"
	"github.com/restic/restic/internal/repository"
	"github.com/restic/restic/internal/restic"
	"github.com/restic/restic/internal/verifshim/vh"
	"golang.org/x/sync/errgroup"
)

// ---- controllable fs.File ---------------------------------------------------

type verifC17Reader struct {
	Name        string
	Sizes       []int // cycled; 0 = as much as the caller asks for
	EOFTogether bool
	SmallOnly   bool
}

var verifC17Readers = []verifC17Reader{
	{Name: "full"},
	{Name: "r7", Sizes: []int{7}},
	{Name: "r4096", Sizes: []int{4096}},
	{Name: "r524287", Sizes: []int{512*1024 - 1}},
	{Name: "r524288", Sizes: []int{512 * 1024}},
	{Name: "r524289", Sizes: []int{512*1024 + 1}},
	{Name: "r1", Sizes: []int{1}, SmallOnly: true},
	{Name: "alt1-65536", Sizes: []int{1, 65536}},
	{Name: "full+eof", EOFTogether: true},
	{Name: "r4096+eof", Sizes: []int{4096}, EOFTogether: true},
}

type verifC17File struct {
	content []byte
	pos     int
	rd      verifC17Reader
	calls   int
	failAt  int // >0: Read fails with EIO once pos reaches failAt
	closed  int
	short   int // number of reads that returned fewer bytes than asked
}

func (f *verifC17File) Read(p []byte) (int, error) {
	if f.failAt > 0 && f.pos >= f.failAt {
		return 0, &os.PathError{Op: "read", Path: "verif", Err: syscall.EIO}
	}
	if f.pos >= len(f.content) {
		return 0, io.EOF
	}
	n := len(p)
	if len(f.rd.Sizes) > 0 {
		if s := f.rd.Sizes[f.calls%len(f.rd.Sizes)]; s < n {
			n = s
		}
	}
	f.calls++
	if rem := len(f.content) - f.pos; n > rem {
		n = rem
	}
	if f.failAt > 0 && f.pos+n > f.failAt {
		n = f.failAt - f.pos
	}
	if n < len(p) {
		f.short++
	}
	copy(p, f.content[f.pos:f.pos+n])
	f.pos += n
	if f.rd.EOFTogether && f.pos == len(f.content) {
		return n, io.EOF
	}
	return n, nil
}
func (f *verifC17File) Close() error                       { f.closed++; return nil }
func (f *verifC17File) MakeReadable() error                { return nil }
func (f *verifC17File) Readdirnames(int) ([]string, error) { return nil, errors.New("not a directory") }
func (f *verifC17File) Stat() (*fs.ExtendedFileInfo, error) {
	return nil, errors.New("not implemented")
}
func (f *verifC17File) ToNode(bool, func(string, ...any)) (*data.Node, error) {
	return &data.Node{Type: data.NodeTypeFile, Name: "verif"}, nil
}

// ---- fake uploader: hashes a chunk only when the next one arrives -----------

type verifC17Chunk struct {
	n        int
	okSubmit bool      // data equalled the corresponding slice of the file when SaveBlobAsync was called
	okLate   bool      // ... and still did when the callback was delivered
	id       restic.ID // hash of the data at callback time = what an uploader would have stored
}

type verifC17Saver struct {
	content []byte // content of the file being saved
	off     int
	chunks  []verifC17Chunk
	pending func()
	guard   func()
}

func (s *verifC17Saver) begin(content []byte) {
	s.content, s.off, s.chunks = content, 0, nil
}

func (s *verifC17Saver) same(off int, buf []byte) bool {
	return off+len(buf) <= len(s.content) && bytes.Equal(buf, s.content[off:off+len(buf)])
}

func (s *verifC17Saver) flush() {
	if s.pending != nil {
		p := s.pending
		s.pending = nil
		// the interface promises the callback comes from a different goroutine
		done := make(chan struct{})
		go func() { defer close(done); defer s.guard(); p() }()
		<-done
	}
}

func (s *verifC17Saver) SaveBlobAsync(_ context.Context, _ restic.BlobType, buf []byte, _ restic.ID, _ bool, cb func(newID restic.ID, known bool, sizeInRepo int, err error)) {
	idx, off := len(s.chunks), s.off
	s.off += len(buf)
	s.chunks = append(s.chunks, verifC17Chunk{n: len(buf), okSubmit: s.same(off, buf)})
	prev := s.pending
	s.pending = func() {
		id := restic.Hash(buf)
		s.chunks[idx].okLate = s.same(off, buf)
		s.chunks[idx].id = id
		cb(id, false, len(buf), nil)
	}
	if prev != nil {
		done := make(chan struct{})
		go func() { defer close(done); defer s.guard(); prev() }()
		<-done
	}
}

// ---- contents ---------------------------------------------------------------

type verifC17Content struct {
	Kind string
	P    int
}

func (c verifC17Content) String() string { return fmt.Sprintf("%s%d", c.Kind, c.P) }

func verifC17LCG(seed uint64, n int) []byte {
	buf := make([]byte, n)
	x := seed*0x9E3779B97F4A7C15 + 0x1234567
	for i := range buf {
		x = x*6364136223846793005 + 1442695040888963407
		buf[i] = byte(x >> 56)
	}
	return buf
}

func (c verifC17Content) gen(n int) []byte {
	switch c.Kind {
	case "zero":
		return make([]byte, n)
	case "period":
		tab := verifC17LCG(uint64(1000+c.P), c.P)
		if c.P == 1 {
			tab[0] = 0xA7
		}
		buf := make([]byte, n)
		for i := 0; i < n; i += c.P {
			copy(buf[i:], tab)
		}
		return buf
	case "lcg":
		return verifC17LCG(uint64(c.P), n)
	case "holes":
		// data with long runs of zeros that begin in the middle of a chunk and cover whole 512 KiB read
		// buffers (disk images, preallocated files): [700 KiB, 700 KiB + 3 MiB) and [n - 1200 KiB, n - 100 KiB)
		buf := verifC17LCG(uint64(c.P), n)
		zero := func(from, to int) {
			if from < 0 {
				from = 0
			}
			for i := from; i < to && i < n; i++ {
				buf[i] = 0
			}
		}
		zero(700*1024, 700*1024+3*1024*1024)
		zero(n-1200*1024, n-100*1024)
		return buf
	}
	panic("unknown content kind")
}

// ---- running the real fileSaver --------------------------------------------

type verifC17Job struct {
	content []byte
	rd      verifC17Reader
	failAt  int
}

type verifC17Result struct {
	err    error
	size   uint64
	ids    []restic.ID
	chunks []verifC17Chunk
	file   *verifC17File
	readOK bool

	panicMsg string
}

// verifC17Worker is ONE fileSaver with ONE worker.  The worker goroutine is
// started by the harness (newFileSaver is asked for 0 workers and s.worker is
// run exactly as newFileSaver would run it) so that a panic of the real code
// can be reported as a violation instead of killing the test binary.
type verifC17Worker struct {
	t        *testing.T
	cancel   context.CancelFunc
	ctx      context.Context
	wg       *errgroup.Group
	saver    *verifC17Saver
	s        *fileSaver
	done     chan struct{}
	panicMsg string
}

func (w *verifC17Worker) guard() {
	if e := recover(); e != nil {
		st := string(debug.Stack())
		if len(st) > 1500 {
			st = st[:1500]
		}
		w.panicMsg = fmt.Sprintf("%v\n%s", e, st)
		w.cancel()
	}
}

func verifC17NewWorker(t *testing.T, factory restic.ChunkerFactory) *verifC17Worker {
	ctx, cancel := context.WithCancel(context.Background())
	wg, wctx := errgroup.WithContext(ctx)
	w := &verifC17Worker{t: t, cancel: cancel, ctx: wctx, wg: wg, saver: &verifC17Saver{}, done: make(chan struct{})}
	w.saver.guard = w.guard
	w.s = newFileSaver(wctx, wg, w.saver, factory, 0)
	w.s.NodeFromFileInfo = func(_, _ string, meta toNoder, ign bool) (*data.Node, error) {
		return meta.ToNode(ign, t.Logf)
	}
	ch := make(chan saveFileJob)
	w.s.ch = ch
	go func() {
		defer close(w.done)
		defer w.guard()
		w.s.worker(wctx, ch)
	}()
	return w
}

func (w *verifC17Worker) save(j verifC17Job) verifC17Result {
	w.saver.begin(j.content)
	f := &verifC17File{content: j.content, rd: j.rd, failAt: j.failAt}
	readOK := false
	fut := w.s.Save(w.ctx, "/verif", "/verif", f, func() {}, func() {
		readOK = true
		w.saver.flush()
	}, func(*data.Node, ItemStats) {})
	res := fut.take(w.ctx)
	// a failed file never reaches completeReading; deliver what is pending so
	// that the uploader is clean for the next file
	w.saver.flush()
	r := verifC17Result{err: res.err, chunks: w.saver.chunks, file: f, readOK: readOK}
	if w.ctx.Err() != nil {
		<-w.done
		r.panicMsg = w.panicMsg
	}
	if res.node != nil {
		r.size = res.node.Size
		r.ids = append(r.ids, res.node.Content...)
	}
	return r
}

func (w *verifC17Worker) close() {
	w.s.TriggerShutdown()
	<-w.done
	if err := w.wg.Wait(); err != nil {
		w.t.Fatalf("C17: file saver: %v", err)
	}
	w.cancel()
}

// verifC17Run pushes the jobs one after the other through one fresh worker.
func verifC17Run(t *testing.T, factory restic.ChunkerFactory, jobs []verifC17Job) []verifC17Result {
	w := verifC17NewWorker(t, factory)
	defer w.close()
	out := make([]verifC17Result, 0, len(jobs))
	for _, j := range jobs {
		out = append(out, w.save(j))
	}
	return out
}

// verifC17Reference returns the chunk lengths of an independent one-shot run of
// the chunker library over the whole content.
func verifC17Reference(t *testing.T, content []byte, pol chunker.Pol) []int {
	ch := chunker.New(bytes.NewReader(content), pol)
	buf := make([]byte, 0, chunker.MaxSize)
	var lens []int
	for {
		c, err := ch.Next(buf)
		if err == io.EOF {
			return lens
		}
		if err != nil {
			t.Fatalf("C17: reference chunker: %v", err)
		}
		lens = append(lens, int(c.Length))
	}
}

// verifC17Check applies the per-file oracle; it returns the chunk lengths.
func verifC17Check(r *vh.Run, ck, key string, detail any, content []byte, ref []int, res verifC17Result) bool {
	if res.panicMsg != "" {
		r.Violationf(ck, key+"|panic", detail, "fileSaver panicked: %s", res.panicMsg)
		return false
	}
	if res.err != nil {
		r.Violationf(ck, key+"|error", detail, "saving a readable file failed: %v", res.err)
		return false
	}
	ok := true
	if res.size != uint64(len(content)) {
		r.Violationf(ck, key+"|size", detail, "node.Size=%d, file has %d bytes", res.size, len(content))
		ok = false
	}
	if len(res.ids) != len(res.chunks) {
		r.Violationf(ck, key+"|content-count", detail, "node.Content has %d IDs but %d chunks were handed to the uploader", len(res.ids), len(res.chunks))
		return false
	}
	off := 0
	lens := make([]int, len(res.chunks))
	for i, c := range res.chunks {
		lens[i] = c.n
		last := i == len(res.chunks)-1
		if c.n < 1 || c.n > chunker.MaxSize || (!last && c.n < chunker.MinSize) {
			r.Violationf(ck, key+"|bounds", detail, "chunk %d of %d has length %d (min %d, max %d)", i, len(res.chunks), c.n, chunker.MinSize, chunker.MaxSize)
			ok = false
		}
		if off+c.n > len(content) {
			r.Violationf(ck, key+"|overrun", detail, "chunks are longer (%d at chunk %d) than the file (%d)", off+c.n, i, len(content))
			return false
		}
		if !c.okSubmit {
			r.Violationf(ck, key+"|lossy", detail, "chunk %d (offset %d, length %d) is not the corresponding slice of the file", i, off, c.n)
			ok = false
		} else if !c.okLate {
			r.Violationf(ck, key+"|buffer-reused", detail, "chunk %d (offset %d, length %d) was correct when handed to the uploader but changed before its callback was delivered", i, off, c.n)
			ok = false
		}
		if res.ids[i] != c.id {
			r.Violationf(ck, key+"|content-order", detail, "node.Content[%d] is not the ID the uploader returned for chunk %d", i, i)
			ok = false
		}
		off += c.n
	}
	if off != len(content) {
		r.Violationf(ck, key+"|lossy-total", detail, "chunks cover %d bytes, the file has %d", off, len(content))
		ok = false
	}
	if fmt.Sprint(lens) != fmt.Sprint(ref) {
		r.Violationf(ck, key+"|boundaries", detail, "chunk lengths %v differ from the one-shot reference chunker %v", verifC17Short(lens), verifC17Short(ref))
		ok = false
	}
	if res.file.closed != 1 {
		r.Violationf(ck, key+"|close", detail, "file was closed %d times", res.file.closed)
		ok = false
	}
	return ok
}

func verifC17Short(l []int) string {
	if len(l) > 12 {
		return fmt.Sprintf("%v...(%d chunks)", l[:12], len(l))
	}
	return fmt.Sprint(l)
}

func verifC17Factory(t *testing.T, pol chunker.Pol) restic.ChunkerFactory {
	repository.TestUseLowSecurityKDFParameters(t)
	repo, err := repository.New(mem.New(), repository.Options{})
	if err != nil {
		t.Fatal(err)
	}
	if err := repo.Init(context.Background(), restic.StableRepoVersion, "verif", &pol); err != nil {
		t.Fatalf("C17: init: %v", err)
	}
	if repo.Config().ChunkerPolynomial != pol {
		t.Fatalf("C17: repository polynomial %v, wanted %v", repo.Config().ChunkerPolynomial, pol)
	}
	return repo.ChunkerFactory()
}

func TestVerif_C17(t *testing.T) {
	r := vh.Start(t, "C17")
	defer r.Finish()
	r.Rule("A: polynomial x content kind x size x reader behaviour, each file through a fresh one-worker fileSaver; B: every ordered pair/triple of 8 small files through one worker; C: 18 edits of a 6 MiB file. Oracle per file: chunks = slices of the content, bounds, lengths = one-shot reference chunker. non-trivial = file with >= 2 chunks (a boundary was decided) or, in B, a file processed after another file by the same worker")
	r.Assume("github.com/restic/chunker (module cache, outside /repo) is the trusted reference for where boundaries belong; the check decides that fileSaver reproduces them for every read pattern / file sequence and never loses, duplicates or corrupts bytes",
		"the fake uploader delivers each callback only after the next chunk was submitted, which the BlobSaverAsync contract allows")

	// large short-lived buffers (file contents, 8 MiB chunk buffers of the
	// saver's sync.Pool): collect less often so that the pool is not emptied
	// after every file
	defer debug.SetGCPercent(debug.SetGCPercent(400))

	const ki, mi = 1024, 1024 * 1024
	polA := chunker.Pol(0x3DA3358B4DC173)
	polB := chunker.Pol(0x2000000000A6E5 | 1)
	for !polB.Irreducible() {
		polB += 2
	}
	if polB.Deg() != 53 || !polA.Irreducible() {
		t.Fatalf("C17: bad polynomials %v %v", polA, polB)
	}
	pols := []chunker.Pol{polA}
	if r.Thorough() {
		pols = append(pols, polB)
	}
	factories := map[chunker.Pol]restic.ChunkerFactory{}
	for _, p := range append([]chunker.Pol{polB}, pols...) {
		factories[p] = verifC17Factory(t, p)
		if factories[p].MaxChunkSize() != chunker.MaxSize {
			t.Fatalf("C17: MaxChunkSize %d", factories[p].MaxChunkSize())
		}
	}

	contents := []verifC17Content{{"zero", 0}, {"period", 4099}, {"lcg", 0}, {"holes", 3}}
	if r.Thorough() {
		contents = []verifC17Content{{"zero", 0}, {"period", 1}, {"period", 2}, {"period", 64}, {"period", 4099}, {"holes", 3}, {"holes", 4}}
		for s := 0; s < 8; s++ {
			contents = append(contents, verifC17Content{"lcg", s})
		}
	}
	sizes := []int{0, 1, 512*ki - 1, 512 * ki, 512*ki + 1, mi - 1, mi, mi + 1, 3*512*ki - 1, 3 * 512 * ki, 3*512*ki + 1,
		8*mi - 1, 8 * mi, 8*mi + 1, 8*mi + 512*ki, 20 * mi}

	// quick tier: files >= 8 MiB only with these reader behaviours
	bigQuick := map[string]bool{"full": true, "r7": true, "r524289": true, "alt1-65536": true, "r4096+eof": true}

	// ---- A: single files ----------------------------------------------------
	for _, pol := range pols {
		for _, ct := range contents {
			for _, size := range sizes {
				ck := fmt.Sprintf("A|pol=%x|%v|size=%d", uint64(pol), ct, size)
				if !r.Case(ck) {
					continue
				}
				if r.Expired() {
					return
				}
				content := ct.gen(size)
				ref := verifC17Reference(t, content, pol)
				r.Outcome(fmt.Sprintf("chunks=%d", len(ref)))
				// one worker per (polynomial, content, size): the reader variants
				// follow each other through the same chunker / chunk state
				w := verifC17NewWorker(t, factories[pol])
				for _, rd := range verifC17Readers {
					if rd.SmallOnly && size > 3*512*ki+1 {
						continue
					}
					if !r.Thorough() && size >= 8*mi-1 && !bigQuick[rd.Name] {
						continue
					}
					key := fmt.Sprintf("C17|A|pol=%x|%v|size=%d|%s", uint64(pol), ct, size, rd.Name)
					detail := map[string]any{"polynomial": fmt.Sprintf("%x", uint64(pol)), "content": ct.String(), "size": size, "reader": rd}
					res := []verifC17Result{w.save(verifC17Job{content: content, rd: rd})}
					r.Count("bytes_A", int64(size))
					r.Eval(1)
					r.Trace(1)
					r.Transition(int64(len(res[0].chunks)))
					if len(ref) >= 2 {
						r.Nontrivial(key)
					}
					verifC17Check(r, ck, key, detail, content, ref, res[0])
					if res[0].panicMsg != "" {
						break // the worker is gone
					}
					if size == mi+1 && rd.Name == "r7" {
						r.Sample(map[string]any{"case": detail, "chunk_lengths": ref, "short_reads": res[0].file.short})
					}
				}
				w.close()
			}
		}
	}

	// ---- B: sequences through one worker -------------------------------------
	type small struct {
		name   string
		ct     verifC17Content
		size   int
		rd     verifC17Reader
		failAt int
	}
	smalls := []small{
		{"empty", verifC17Content{"lcg", 20}, 0, verifC17Readers[0], 0},
		{"one", verifC17Content{"lcg", 21}, 1, verifC17Readers[8], 0},
		{"512Ki-1", verifC17Content{"lcg", 22}, 512*ki - 1, verifC17Readers[2], 0},
		{"zero512Ki+1", verifC17Content{"zero", 0}, 512*ki + 1, verifC17Readers[0], 0},
		{"1Mi+1", verifC17Content{"lcg", 23}, mi + 1, verifC17Readers[7], 0},
		{"p4099-1.5Mi", verifC17Content{"period", 4099}, 3 * 512 * ki, verifC17Readers[5], 0},
		{"EIO@600Ki", verifC17Content{"lcg", 24}, 700 * ki, verifC17Readers[0], 600*ki + 5},
		{"2.5Mi", verifC17Content{"lcg", 25}, 5 * 512 * ki, verifC17Readers[9], 0},
	}
	smallContent := make([][]byte, len(smalls))
	smallRef := make([][]int, len(smalls))
	seqPol := polB
	prepared := false
	prepare := func() {
		if prepared {
			return
		}
		prepared = true
		for i, s := range smalls {
			smallContent[i] = s.ct.gen(s.size)
			if s.failAt == 0 {
				smallRef[i] = verifC17Reference(t, smallContent[i], seqPol)
			}
		}
	}
	var seqWorker *verifC17Worker
	runSeq := func(ck string, seq []int) {
		if seqWorker.panicMsg != "" {
			return
		}
		jobs := make([]verifC17Job, len(seq))
		names := make([]string, len(seq))
		for k, i := range seq {
			jobs[k] = verifC17Job{content: smallContent[i], rd: smalls[i].rd, failAt: smalls[i].failAt}
			names[k] = smalls[i].name
		}
		key := fmt.Sprintf("C17|B|%v", names)
		res := make([]verifC17Result, 0, len(jobs))
		for _, j := range jobs {
			res = append(res, seqWorker.save(j))
			r.Count("bytes_B", int64(len(j.content)))
		}
		r.Eval(1)
		r.Trace(1)
		if len(seq) > 1 {
			r.Nontrivial(key)
		}
		for k, i := range seq {
			r.Transition(1)
			detail := map[string]any{"sequence": names, "position": k, "polynomial": fmt.Sprintf("%x", uint64(seqPol))}
			fkey := fmt.Sprintf("%s|file%d", key, k)
			if smalls[i].failAt > 0 {
				if res[k].panicMsg != "" {
					r.Violationf(ck, fkey+"|panic", detail, "fileSaver panicked: %s", res[k].panicMsg)
					break
				}
				if res[k].err == nil {
					r.Violationf(ck, fkey+"|error-swallowed", detail, "a file whose Read failed with EIO at offset %d was saved without error (size %d)", smalls[i].failAt, res[k].size)
				}
				continue
			}
			verifC17Check(r, ck, fkey, detail, smallContent[i], smallRef[i], res[k])
			if res[k].panicMsg != "" {
				break
			}
		}
	}
	tripleThird := []int{1, 4, 6}
	if r.Thorough() {
		tripleThird = []int{0, 1, 2, 3, 4, 5, 6, 7}
	}
	for i := range smalls {
		for j := range smalls {
			ck := fmt.Sprintf("B|%s,%s", smalls[i].name, smalls[j].name)
			if !r.Case(ck) {
				continue
			}
			if r.Expired() {
				return
			}
			prepare()
			// one worker per case key: the sequences of this key follow each other
			seqWorker = verifC17NewWorker(t, factories[seqPol])
			if j == 0 {
				runSeq(ck, []int{i})
			}
			runSeq(ck, []int{i, j})
			for _, k := range tripleThird {
				runSeq(ck, []int{i, j, k})
			}
			seqWorker.close()
		}
	}

	// ---- C: edits --------------------------------------------------------------
	baseSize := 6 * mi
	var base []byte
	var baseRef []int
	for _, kind := range []string{"insert", "delete"} {
		for _, n := range []int{1, 17, 4096} {
			for _, where := range []string{"start", "middle", "end"} {
				ck := fmt.Sprintf("C|%s|%d|%s", kind, n, where)
				if !r.Case(ck) {
					continue
				}
				if base == nil {
					base = verifC17LCG(100, baseSize)
					baseRef = verifC17Reference(t, base, polA)
				}
				pos := map[string]int{"start": 0, "middle": baseSize/2 + 13, "end": baseSize}[where]
				var edited []byte
				delta := n
				if kind == "insert" {
					edited = append(append(append(make([]byte, 0, baseSize+n), base[:pos]...), verifC17LCG(uint64(200+n), n)...), base[pos:]...)
				} else {
					if where == "end" {
						pos = baseSize - n
					}
					edited = append(append(make([]byte, 0, baseSize-n), base[:pos]...), base[pos+n:]...)
					delta = -n
				}
				ref := verifC17Reference(t, edited, polA)
				for _, rd := range []verifC17Reader{verifC17Readers[0], verifC17Readers[9]} {
					key := fmt.Sprintf("C17|C|%s|%d|%s|%s", kind, n, where, rd.Name)
					detail := map[string]any{"edit": kind, "bytes": n, "at": pos, "reader": rd.Name, "base": "lcg seed 100, 6 MiB"}
					res := verifC17Run(t, factories[polA], []verifC17Job{{content: base, rd: rd}, {content: edited, rd: rd}})
					r.Eval(1)
					r.Trace(1)
					r.Transition(2)
					r.Nontrivial(key)
					okBase := verifC17Check(r, ck, key+"|base", detail, base, baseRef, res[0])
					okEd := verifC17Check(r, ck, key+"|edited", detail, edited, ref, res[1])
					if !okBase || !okEd {
						continue
					}
					// locality, on the chunk lists the real fileSaver produced
					type ch struct {
						off, n int
						id     restic.ID
					}
					mk := func(cs []verifC17Chunk) []ch {
						out := make([]ch, len(cs))
						off := 0
						for i, c := range cs {
							out[i] = ch{off, c.n, c.id}
							off += c.n
						}
						return out
					}
					a, b := mk(res[0].chunks), mk(res[1].chunks)
					// (1) chunks ending at or before the edit are unchanged
					for i := range a {
						if a[i].off+a[i].n > pos || i == len(a)-1 { // the last chunk ends at EOF, not at a boundary
							break
						}
						if i >= len(b) || b[i] != a[i] {
							r.Violationf(ck, key+"|prefix-changed", detail, "chunk %d (offset %d, length %d) lies entirely before the edit at %d but changed", i, a[i].off, a[i].n, pos)
						}
					}
					// (2) after the first shared boundary behind the edit everything is identical
					editEnd := pos
					if kind == "insert" {
						editEnd = pos + n
					}
					bounds := map[int]int{}
					for i := range a {
						bounds[a[i].off] = i
					}
					resync := -1
					for j := range b {
						if b[j].off < editEnd+64 {
							continue
						}
						if i, ok := bounds[b[j].off-delta]; ok {
							resync = j
							for k := 0; i+k < len(a) || j+k < len(b); k++ {
								if i+k >= len(a) || j+k >= len(b) || a[i+k].n != b[j+k].n || a[i+k].id != b[j+k].id {
									r.Violationf(ck, key+"|suffix-changed", detail, "both versions have a chunk boundary at (shifted) offset %d but the chunks after it differ at chunk %d", b[j].off, k)
									break
								}
							}
							break
						}
					}
					known := map[restic.ID]bool{}
					for _, c := range a {
						known[c.id] = true
					}
					changed := 0
					for _, c := range b {
						if !known[c.id] {
							changed++
						}
					}
					r.Outcome(fmt.Sprintf("edit-changed-chunks=%d", changed))
					r.Count("edit_new_chunks_total", int64(changed))
					if rd.Name == "full" && where == "middle" && n == 17 {
						r.Sample(map[string]any{"edit": detail, "chunks_before": len(a), "chunks_after": len(b), "new_chunks": changed, "resync_at_chunk": resync})
					}
				}
			}
		}
	}
}

package archiver_test

// C11: an interrupted or failed backup leaves the repository consistent.
//
// Engine GATE (crashx).  The real Archiver.Snapshot runs on a real scratch
// directory (fs.Local) against the gated in-memory store inside a synctest
// bubble.  Explored: every completion order of pending backend operations,
// every single injected failure (fail before the write / fail after the write
// took effect / Load and List failures), context cancellation at every point,
// all within the deviation bound; every scheduler step + every subset of
// in-flight mutations is a crash state.
//
// State oracle: fresh repository on the crash state; check --read-data
// semantics; the previously acknowledged snapshot is byte-identical; every
// snapshot file that is present is completely readable and, if it is the new
// one, equals the source tree; then a fresh uninterrupted backup and a prune
// succeed on the crash state and the oracle holds again.
// End oracle: if Snapshot returned success, the snapshot it returned is present
// and equals the source tree.

import (
	"context"
	"fmt"
	"math"
	"os"
	"path/filepath"
	"sort"
	"testing"
	"time"

	"github.com/restic/restic/internal/archiver"
	"github.com/restic/restic/internal/backend"
	"github.com/restic/restic/internal/data"
	"github.com/restic/restic/internal/fs"
	"github.com/restic/restic/internal/repository"
	"github.com/restic/restic/internal/restic"
	"github.com/restic/restic/internal/verifshim/crashx"
	"github.com/restic/restic/internal/verifshim/gatebe"
	"github.com/restic/restic/internal/verifshim/oracle"
	"github.com/restic/restic/internal/verifshim/vfileio"
	"github.com/restic/restic/internal/verifshim/vh"
	"github.com/restic/restic/internal/verifshim/xplore"
)

const verifC11PackSize = 8 * 1024

type verifC11Fixture struct {
	base     gatebe.State
	sem      crashx.SemFn
	expect   oracle.Expect // previously acknowledged snapshot
	srcDir   string
	srcWant  oracle.Content // content model of a snapshot of srcDir
	twinDir  string         // a source in which every file content occurs twice (variant tempfile-fails)
	twinWant oracle.Content
}

func verifC11Write(t *testing.T, dir string, files map[string][]byte) oracle.Content {
	model := oracle.Content{}
	// the snapshot tree contains the absolute path of the target
	parts := []string{}
	for p := filepath.Dir(dir); p != "/" && p != "."; p = filepath.Dir(p) {
		parts = append([]string{p}, parts...)
	}
	for _, p := range parts {
		model[p] = "d"
	}
	model[dir] = "d"
	names := make([]string, 0, len(files))
	for n := range files {
		names = append(names, n)
	}
	sort.Strings(names)
	for _, n := range names {
		full := filepath.Join(dir, n)
		if err := os.MkdirAll(filepath.Dir(full), 0o755); err != nil {
			t.Fatal(err)
		}
		for d := filepath.Dir(full); d != dir; d = filepath.Dir(d) {
			model[d] = "d"
		}
		if files[n] == nil {
			if err := os.MkdirAll(full, 0o755); err != nil {
				t.Fatal(err)
			}
			model[full] = "d"
			continue
		}
		if err := os.WriteFile(full, files[n], 0o644); err != nil {
			t.Fatal(err)
		}
		model[full] = oracle.FileDesc(files[n])
	}
	return model
}

func verifC11Build(t *testing.T, r *vh.Run, thorough bool) *verifC11Fixture {
	ctx := context.Background()
	fx := &verifC11Fixture{expect: oracle.Expect{}}
	fx.srcDir = filepath.Join(r.Scratch, "src")
	dup := oracle.LCG(11, 5000)
	files := map[string][]byte{
		"a":        oracle.LCG(12, 3000),
		"b":        dup,
		"sub/c":    oracle.LCG(13, 6000),
		"sub/dup":  dup, // identical content: stored once
		"sub/e/f":  oracle.LCG(14, 4100),
		"empty":    {},
		"emptydir": nil,
	}
	if thorough {
		files["big"] = oracle.LCG(15, 700*1024) // larger than the minimal chunk size: one or two big blobs, own pack
	}
	fx.srcWant = verifC11Write(t, fx.srcDir, files)
	// every content twice, none of it in the repository yet: whichever blob fails to be stored, another
	// file refers to the same blob
	fx.twinDir = filepath.Join(r.Scratch, "twins")
	fx.twinWant = verifC11Write(t, fx.twinDir, map[string][]byte{
		"p1": oracle.LCG(31, 3000), "p2": oracle.LCG(32, 5000), "p3": oracle.LCG(33, 6000),
		"t/p1": oracle.LCG(31, 3000), "t/p2": oracle.LCG(32, 5000), "t/p3": oracle.LCG(33, 6000),
	})

	repo, store, err := oracle.NewRepo(ctx, 2, repository.Options{})
	if err != nil {
		t.Fatal(err)
	}
	repository.VerifSetPackSize(repo, verifC11PackSize)
	id, model, err := oracle.Forge(ctx, repo, oracle.Spec{"old/x": oracle.LCG(21, 2500), "old/y": oracle.LCG(22, 3500), "b": dup}, oracle.ForgeOpts{Tags: []string{"old"}})
	if err != nil {
		t.Fatal(err)
	}
	fx.expect[id] = model
	fx.base = store.Snapshot()
	fx.sem = oracle.SemNamer(repo.Key())
	if probs := oracle.Verify(ctx, fx.base, oracle.Password, fx.expect, oracle.VerifyOpts{ReadData: true}); len(probs) > 0 {
		t.Fatalf("fixture inconsistent: %v", probs)
	}
	return fx
}

// verifC11Lenient: the error callback reports and continues, as cmd/restic's does (the backup is then
// "incomplete", exit status 3, but a snapshot is written).
var verifC11Lenient bool

func verifC11Backup(ctx context.Context, repo *repository.Repository, dir string, tm time.Time) (restic.ID, error) {
	arch := archiver.New(repo, fs.NewLocal(), archiver.Options{})
	arch.Error = func(item string, err error) error { return err }
	if verifC11Lenient {
		arch.Error = func(item string, err error) error { return nil }
	}
	_, id, _, err := arch.Snapshot(ctx, []string{dir}, archiver.SnapshotOptions{Time: tm, Hostname: "verifhost", Tags: []string{"new"}})
	return id, err
}

// verifC11Listed checks every snapshot present in the state that is not the old one.
func verifC11Listed(ctx context.Context, st gatebe.State, fx *verifC11Fixture, readableOnly bool) []string {
	var probs []string
	repo, _, err := oracle.Open(ctx, st, oracle.Password)
	if err != nil {
		return []string{"open: " + err.Error()}
	}
	if err := repo.LoadIndex(ctx, restic.NoopTerminalCounterFactory); err != nil {
		return []string{"LoadIndex: " + err.Error()}
	}
	for k := range st {
		if k.Type != backend.SnapshotFile {
			continue
		}
		id, err := restic.ParseID(k.Name)
		if err != nil {
			continue
		}
		if _, old := fx.expect[id]; old {
			continue
		}
		sn, err := data.LoadSnapshot(ctx, repo, id)
		if err != nil {
			probs = append(probs, fmt.Sprintf("snapshot %v present but unreadable: %v", id.Str(), err))
			continue
		}
		got, err := oracle.Walk(ctx, repo, *sn.Tree)
		if err != nil {
			probs = append(probs, fmt.Sprintf("snapshot %v present but its data is not: %v", id.Str(), err))
			continue
		}
		if readableOnly {
			continue // an incomplete snapshot may lack the items that failed; it must be readable (checked above)
		}
		if ok, why := fx.srcWant.Equal(got); !ok {
			probs = append(probs, fmt.Sprintf("snapshot %v content differs from the source tree: %s", id.Str(), why))
		}
	}
	return probs
}

func TestVerif_C11(t *testing.T) {
	r := vh.Start(t, "C11")
	defer r.Finish()
	r.Rule("GATE: all completion orders of pending backend operations, every single injected failure (err = fails without effect, err-after = takes effect but reports failure) and context cancellation at every point of the real Archiver.Snapshot, within the deviation bound; crash states = every scheduler step + every subset of in-flight mutations, de-duplicated by semantic file names. non-trivial = crash state that differs from the pre-backup state.")
	r.Assume("backend Save/Remove are atomic (C36)", "goroutine interleaving between two backend events is the Go runtime's choice")
	oracle.LowKDF()
	fx := verifC11Build(t, r, r.Thorough())
	bound := vh.Pick(r, 1, 3)
	seen := map[string]bool{}
	tm := time.Date(2022, 2, 2, 2, 2, 2, 0, time.UTC)

	type prep struct {
		repo   *repository.Repository
		cancel context.CancelFunc
		ctx    context.Context
		id     restic.ID
	}
	for _, variant := range []string{"plain", "cancel", "slow-upload", "tempfile-fails"} {
		variant := variant
		sc := crashx.Scenario{
			Property: "C11", Name: "backup/" + variant, Base: fx.base, Sem: fx.sem,
			Backend: func(be *gatebe.Backend) {
				be.Alts = func(op *gatebe.Op) []string {
					if op.Kind == "Save" {
						return []string{"ok", "err", "err-after"}
					}
					return []string{"ok", "err"}
				}
			},
			Prepare: func(ctx context.Context, run *crashx.Run, be *gatebe.Backend) (any, error) {
				repo, err := oracle.OpenOn(ctx, be, repository.Options{})
				if err != nil {
					return nil, err
				}
				repository.VerifSetPackSize(repo, verifC11PackSize)
				if err := repo.LoadIndex(ctx, restic.NoopTerminalCounterFactory); err != nil {
					return nil, err
				}
				cctx, cancel := context.WithCancel(ctx)
				p := &prep{repo: repo, ctx: cctx, cancel: cancel}
				run.Data = p
				return p, nil
			},
			Op: func(ctx context.Context, run *crashx.Run, prepared any) error {
				p := prepared.(*prep)
				if variant == "tempfile-fails" {
					// a local failure instead of a backend failure: creating the temporary pack file fails
					// (ENOSPC, EMFILE, TMPDIR gone) - an environment answer at every creation; the error
					// callback continues like cmd/restic's
					verifC11Lenient = true
					n := 0
					vfileio.Hook = func(prefix string) error {
						n++
						if run.X.Gate(xplore.Event{Key: fmt.Sprintf("op:TempFile#%d", n), Proc: "op", Kind: "TempFile", Alts: []string{"ok", "err"}}) == 1 {
							run.Faulted = true
							return fmt.Errorf("C11: no space left on device (injected)")
						}
						return nil
					}
					defer func() { vfileio.Hook = nil; verifC11Lenient = false }()
				}
				src := fx.srcDir
				if variant == "tempfile-fails" {
					src = fx.twinDir
				}
				id, err := verifC11Backup(p.ctx, p.repo, src, tm)
				p.id = id
				return err
			},
			NoFaultFailureIsViolation: variant != "cancel",
			StateOracle: func(ctx context.Context, c crashx.Crash) []string {
				probs := oracle.Verify(ctx, c.State, oracle.Password, fx.expect, oracle.VerifyOpts{ReadData: true})
				probs = append(probs, verifC11Listed(ctx, c.State, fx, variant == "tempfile-fails")...)
				if len(probs) > 0 {
					return probs
				}
				// the user simply runs the backup again, then prunes
				store := gatebe.NewStoreFrom(c.State, nil)
				be := &gatebe.Backend{S: store, Proc: "again", Conns: 3, AtomicReplace: true}
				repo, err := oracle.OpenOn(ctx, be, repository.Options{})
				if err != nil {
					return []string{"follow-up open: " + err.Error()}
				}
				repository.VerifSetPackSize(repo, verifC11PackSize)
				if err := repo.LoadIndex(ctx, restic.NoopTerminalCounterFactory); err != nil {
					return []string{"follow-up LoadIndex: " + err.Error()}
				}
				id, err := verifC11Backup(ctx, repo, fx.srcDir, tm.Add(time.Hour))
				if err != nil {
					return []string{"follow-up backup failed: " + err.Error()}
				}
				exp := oracle.Expect{id: fx.srcWant}
				for k, v := range fx.expect {
					exp[k] = v
				}
				if p := oracle.Verify(ctx, store.Snapshot(), oracle.Password, exp, oracle.VerifyOpts{ReadData: true}); len(p) > 0 {
					return append([]string{"after follow-up backup:"}, p...)
				}
				repo2, err := oracle.OpenOn(ctx, be, repository.Options{})
				if err != nil {
					return []string{"follow-up open: " + err.Error()}
				}
				repository.VerifSetPackSize(repo2, verifC11PackSize)
				if err := repo2.LoadIndex(ctx, restic.NoopTerminalCounterFactory); err != nil {
					return []string{"follow-up LoadIndex: " + err.Error()}
				}
				plan, err := repository.PlanPrune(ctx, repository.PruneOptions{MaxRepackBytes: math.MaxUint64, MaxUnusedBytes: func(uint64) uint64 { return 0 }}, repo2,
					func(ctx context.Context, repo restic.Repository, used restic.FindBlobSet) error {
						var trees restic.IDs
						err := data.ForAllSnapshots(ctx, repo, repo, nil, func(_ restic.ID, sn *data.Snapshot, err error) error {
							if err != nil {
								return err
							}
							trees = append(trees, *sn.Tree)
							return nil
						})
						if err != nil {
							return err
						}
						return data.FindUsedBlobs(ctx, repo, trees, used, restic.NoopCounter)
					}, restic.NewNoopPrinter())
				if err != nil {
					return []string{"follow-up prune plan failed: " + err.Error()}
				}
				if err := plan.Execute(ctx, restic.NewNoopPrinter()); err != nil {
					return []string{"follow-up prune failed: " + err.Error()}
				}
				if p := oracle.Verify(ctx, store.Snapshot(), oracle.Password, exp, oracle.VerifyOpts{ReadData: true}); len(p) > 0 {
					return append([]string{"after follow-up prune:"}, p...)
				}
				return nil
			},
			EndOracle: func(ctx context.Context, run *crashx.Run) []string {
				p, _ := run.Data.(*prep)
				if p == nil || !run.Done || run.Err != nil {
					return nil
				}
				exp := oracle.Expect{p.id: fx.srcWant}
				if variant == "tempfile-fails" {
					exp = oracle.Expect{p.id: fx.twinWant}
					if run.Faulted {
						// an incomplete snapshot: what it contains is not prescribed, but everything it refers to
						// must be stored and indexed (check --read-data over all snapshots, every snapshot readable)
						exp = oracle.Expect{}
					}
				}
				for k, v := range fx.expect {
					exp[k] = v
				}
				probs := oracle.Verify(ctx, run.Store.Snapshot(), oracle.Password, exp, oracle.VerifyOpts{ReadData: true})
				if variant == "tempfile-fails" {
					probs = append(probs, verifC11Listed(ctx, run.Store.Snapshot(), fx, true)...)
				}
				return probs
			},
		}
		if variant == "slow-upload" {
			// an upload that stalls for 11 minutes makes the pending in-memory index "old": restic then writes
			// preliminary index files during the backup, which must never name a pack that is not uploaded yet
			sc.Faults = []string{"ok"}
			// one connection: packs are uploaded one after the other, so a later pack is handled after the stall
			sc.Backend = func(be *gatebe.Backend) { be.Conns = 1 }
			sc.TimeAction = true
			sc.TimeQuantum = 11 * time.Minute
		}
		if variant == "tempfile-fails" {
			sc.Faults = []string{"ok"}
			sc.Backend = nil
		}
		if variant == "cancel" {
			// context cancellation as a scenario action at every point (one deviation); faults off in this variant
			sc.Faults = []string{"ok"}
			sc.Backend = nil
			sc.Actions = func(run *crashx.Run) []xplore.Action {
				p, _ := run.Data.(*prep)
				if p == nil || p.ctx.Err() != nil {
					return nil
				}
				return []xplore.Action{{Name: "cancel-context", Do: func(x *xplore.Exec) { run.Faulted = true; p.cancel() }}}
			}
		}
		crashx.Explore(r, t, sc, bound, seen)
	}
	r.Extra("deviation_bound", bound)
}

// TestVerifRace_C11 runs every scenario body free (gates answer at once, no oracle) under the race detector.
func TestVerifRace_C11(t *testing.T) {
	xplore.Free = 3
	defer func() { xplore.Free = 0 }()
	TestVerif_C11(t)
}

package dump_test

// C45: dump writes exactly the snapshot's content.
//
// What the code does in this version (read: internal/dump/common.go): DumpTree
// runs two goroutines — sendTrees walks the tree (walker.Walk, loading subtrees
// one after the other) and pushes nodes into a channel of 10, dumpTar/dumpZip
// writes them; for every file writeNode starts up to Connections() concurrent
// loaders (through a bloblru cache) whose results travel on per-blob channels
// that the writer drains in order.  So up to Connections()+1 LoadBlob calls
// are outstanding (one tree load of the walker + the data loads of the file
// being written).
//
// Part 1, ENUM (real repository on an in-memory store, free running):
//   forged trees (nodes written with data.TreeWriter/SaveBlob, so every node
//   type can be used) x format {tar, zip} x root path {"/", "/some dir/sub"} x
//   Connections {1, 2, 4}:
//     seqs     one file for every blob sequence of length 0..4 over a pool of
//              3 blobs (121 files: empty, single, multi-blob, repeated blobs,
//              files sharing blobs), half of them in a subdirectory
//     modes    file / dir / symlink x {setuid,setgid,sticky}^3 x 5 permission sets
//     names    names with spaces, leading/trailing blanks, control characters,
//              non-UTF-8 bytes, multi-byte runes, 200-byte names, as files, as
//              directories and as link targets
//     special  fifo, device, char device, socket, irregular nodes nested in
//              directories and at the top level of the dumped tree
//     mixed    a small tree with all of it
//     sched    the tree of part 2 (9 distinct small blobs)
//   plus the single-file dump (Dumper.WriteNode) of every file of "seqs".
// Part 2, GATE (schedules): the dumper runs on a gated restic.Loader that
//   serves the plaintext blobs read from that repository; every LoadBlob (tree
//   or data) is a scheduling point with answers {ok, err}.  The pipeline keeps
//   the spaces small, so NO deviation bound is used: every completion order of
//   the outstanding loads and every ok/err assignment is executed, for "sched"
//   (3 tree loads, 9 data blobs; a 3-blob file, a file repeating a blob that is
//   in flight and reusing a cached one, a file two levels down) as tar and zip
//   with Connections 2 and 4 (thorough: 1, 2, 3, 4, 6) and for the single-file
//   dump of a 5-blob file with Connections 2 and 4 (thorough: also 1 and 3, a
//   6-blob file with 4 and 6 connections = all 6! orders x 2^6 answers, a
//   7-blob file with 3).
//
//   The same single-file and tree dumps are repeated with the dumper's blob
//   cache shrunk to two blobs (add-only hook VerifSetCacheSize; the real size
//   is 64 MiB, reached with many connections and multi-MiB blobs): blobs are
//   evicted while they still wait for the writer.  The gated loader places the
//   plaintext into the caller's buffer when it is large enough, as
//   Repository.LoadBlob does.
//
// Oracle: the archive is parsed with archive/tar resp. archive/zip and compared
// with the model: entries in tree order (depth first, names in tree order),
// exactly one per file / directory / symlink, none for other node types; name,
// type, permission bits incl. setuid/setgid/sticky, link target, size and
// bytes.  Single-file dump: output == file bytes.  With an injected load error
// the dump must return an error (never nil with a short archive); without one
// it must succeed.  Termination on every branch.
//
// The gated loader answers immediately (without a gate) when the context it is
// given is already cancelled — like the real repository — so that the
// select-with-two-ready-cases after an error cannot create scheduler-unowned
// events.

import (
	"archive/tar"
	"archive/zip"
	"bytes"
	"context"
	"errors"
	"fmt"
	"io"
	"os"
	"path"
	"sort"
	"strings"
	"sync"
	"testing"
	"time"

	"github.com/restic/restic/internal/data"
	"github.com/restic/restic/internal/dump"
	"github.com/restic/restic/internal/repository"
	"github.com/restic/restic/internal/restic"
	"github.com/restic/restic/internal/verifshim/detrand"
	"github.com/restic/restic/internal/verifshim/oracle"
	"github.com/restic/restic/internal/verifshim/vh"
	"github.com/restic/restic/internal/verifshim/vx"
	"github.com/restic/restic/internal/verifshim/xplore"
)

// ---------------------------------------------------------------- model

type verifC45Node struct {
	name  string
	typ   data.NodeType
	mode  os.FileMode // as restic stores it: type bits + permission bits + setuid/setgid/sticky
	blobs []int       // indices into the blob pool
	link  string
	kids  []*verifC45Node

	id restic.ID // subtree id (dirs), set by the forge
}

// verifC45SmallCache: room for two of the small blobs (size + 96 bytes overhead each), not for three.
const verifC45SmallCache = 300

var verifC45Pool = [][]byte{
	[]byte("0123456789"),
	oracle.LCG(4501, 1000),
	oracle.LCG(4502, 3000),
	oracle.LCG(4503, 17),
	oracle.LCG(4504, 2048),
	// 5..13: small distinct blobs for the schedule tree (no cache hits between files unless intended)
	oracle.LCG(4505, 33), oracle.LCG(4506, 40), oracle.LCG(4507, 21), oracle.LCG(4508, 64), oracle.LCG(4509, 9),
	oracle.LCG(4510, 31), oracle.LCG(4511, 50), oracle.LCG(4512, 27), oracle.LCG(4513, 45),
}

func (n *verifC45Node) content() []byte {
	var b []byte
	for _, i := range n.blobs {
		b = append(b, verifC45Pool[i]...)
	}
	return b
}

func verifC45Sorted(kids []*verifC45Node) []*verifC45Node {
	out := append([]*verifC45Node(nil), kids...)
	sort.Slice(out, func(i, j int) bool { return out[i].name < out[j].name })
	return out
}

// verifC45Entry is one expected archive entry.
type verifC45Entry struct {
	name    string
	typ     byte  // 'f', 'd', 'l'
	bits    int64 // unix permission bits incl. 04000/02000/01000
	link    string
	content []byte
}

func verifC45UnixBits(m os.FileMode) int64 {
	b := int64(m.Perm())
	if m&os.ModeSetuid != 0 {
		b |= 0o4000
	}
	if m&os.ModeSetgid != 0 {
		b |= 0o2000
	}
	if m&os.ModeSticky != 0 {
		b |= 0o1000
	}
	return b
}

// verifC45Expected lists the entries of a dump of the tree whose top-level nodes are kids.
func verifC45Expected(kids []*verifC45Node, rootPath string) []verifC45Entry {
	var out []verifC45Entry
	var rec func(n *verifC45Node, dir string)
	rec = func(n *verifC45Node, dir string) {
		p := path.Join(dir, n.name)
		rel := strings.TrimPrefix(p, "/")
		switch n.typ {
		case data.NodeTypeFile:
			out = append(out, verifC45Entry{name: rel, typ: 'f', bits: verifC45UnixBits(n.mode), content: n.content()})
		case data.NodeTypeSymlink:
			out = append(out, verifC45Entry{name: rel, typ: 'l', bits: verifC45UnixBits(n.mode), link: n.link})
		case data.NodeTypeDir:
			out = append(out, verifC45Entry{name: rel + "/", typ: 'd', bits: verifC45UnixBits(n.mode)})
			for _, k := range verifC45Sorted(n.kids) {
				rec(k, p)
			}
		}
	}
	for _, k := range verifC45Sorted(kids) {
		rec(k, rootPath)
	}
	return out
}

// verifC45Forbidden maps the archive names that nodes of other types would get (if they were written) to
// "<node type>:<top-level|nested>".
func verifC45Forbidden(kids []*verifC45Node, rootPath string) map[string]string {
	out := map[string]string{}
	var rec func(n *verifC45Node, dir string, depth int)
	rec = func(n *verifC45Node, dir string, depth int) {
		p := path.Join(dir, n.name)
		rel := strings.TrimPrefix(p, "/")
		switch n.typ {
		case data.NodeTypeFile, data.NodeTypeSymlink:
		case data.NodeTypeDir:
			for _, k := range n.kids {
				rec(k, p, depth+1)
			}
		default:
			where := "nested"
			if depth == 0 {
				where = "top-level"
			}
			out[rel] = string(n.typ) + ":" + where
			out[rel+"/"] = string(n.typ) + ":" + where
		}
	}
	for _, k := range kids {
		rec(k, rootPath, 0)
	}
	return out
}

// ---------------------------------------------------------------- forge

var verifC45Time = time.Date(2020, 5, 17, 11, 22, 33, 0, time.UTC)

func verifC45Forge(ctx context.Context, up restic.BlobSaver, kids []*verifC45Node) (restic.ID, error) {
	tw := data.NewTreeWriter(up)
	for _, k := range verifC45Sorted(kids) {
		n := &data.Node{Name: k.name, Type: k.typ, Mode: k.mode, ModTime: verifC45Time, AccessTime: verifC45Time, ChangeTime: verifC45Time, UID: 1000, GID: 100, User: "u", Group: "g"}
		switch k.typ {
		case data.NodeTypeFile:
			n.Content = restic.IDs{}
			for _, i := range k.blobs {
				n.Content = append(n.Content, restic.Hash(verifC45Pool[i]))
			}
			n.Size = uint64(len(k.content()))
		case data.NodeTypeSymlink:
			n.LinkTarget = k.link
			n.Size = uint64(len(k.link))
		case data.NodeTypeDir:
			id, err := verifC45Forge(ctx, up, k.kids)
			if err != nil {
				return restic.ID{}, err
			}
			k.id = id
			n.Subtree = &id
		case data.NodeTypeDev, data.NodeTypeCharDev:
			n.Device = 0x0801
		}
		if err := tw.AddNode(n); err != nil {
			return restic.ID{}, fmt.Errorf("forge %q: %w", k.name, err)
		}
	}
	return tw.Finalize(ctx)
}

func verifC45File(name string, mode os.FileMode, blobs ...int) *verifC45Node {
	return &verifC45Node{name: name, typ: data.NodeTypeFile, mode: mode, blobs: blobs}
}
func verifC45Dir(name string, mode os.FileMode, kids ...*verifC45Node) *verifC45Node {
	return &verifC45Node{name: name, typ: data.NodeTypeDir, mode: os.ModeDir | mode, kids: kids}
}
func verifC45Link(name, target string) *verifC45Node {
	return &verifC45Node{name: name, typ: data.NodeTypeSymlink, mode: os.ModeSymlink | 0o777, link: target}
}
func verifC45Specials(prefix string) []*verifC45Node {
	return []*verifC45Node{
		{name: prefix + "fifo", typ: data.NodeTypeFifo, mode: os.ModeNamedPipe | 0o644},
		{name: prefix + "dev", typ: data.NodeTypeDev, mode: os.ModeDevice | 0o660},
		{name: prefix + "chardev", typ: data.NodeTypeCharDev, mode: os.ModeDevice | os.ModeCharDevice | 0o620},
		{name: prefix + "socket", typ: data.NodeTypeSocket, mode: os.ModeSocket | 0o755},
		{name: prefix + "irregular", typ: data.NodeTypeIrregular, mode: os.ModeIrregular | 0o600},
	}
}

type verifC45Tree struct {
	name string
	kids []*verifC45Node
	id   restic.ID
}

func verifC45Trees() []*verifC45Tree {
	var trees []*verifC45Tree
	// seqs
	{
		var top, sub []*verifC45Node
		var seqs [][]int
		var gen func(cur []int)
		gen = func(cur []int) {
			seqs = append(seqs, append([]int(nil), cur...))
			if len(cur) == 4 {
				return
			}
			for b := 0; b < 3; b++ {
				gen(append(cur, b))
			}
		}
		gen(nil)
		for i, s := range seqs {
			name := "s"
			for _, b := range s {
				name += fmt.Sprint(b)
			}
			f := verifC45File(name, 0o644, s...)
			if i%2 == 0 {
				top = append(top, f)
			} else {
				sub = append(sub, f)
			}
		}
		top = append(top, verifC45Dir("sub", 0o755, sub...))
		trees = append(trees, &verifC45Tree{name: "seqs", kids: top})
	}
	// modes
	{
		var kids []*verifC45Node
		for _, typ := range []string{"file", "dir", "link"} {
			for sp := 0; sp < 8; sp++ {
				for _, perm := range []os.FileMode{0, 0o644, 0o755, 0o777, 0o001} {
					m := perm
					if sp&1 != 0 {
						m |= os.ModeSetuid
					}
					if sp&2 != 0 {
						m |= os.ModeSetgid
					}
					if sp&4 != 0 {
						m |= os.ModeSticky
					}
					name := fmt.Sprintf("m-%s-%d-%04o", typ, sp, perm)
					switch typ {
					case "file":
						kids = append(kids, verifC45File(name, m, 0))
					case "dir":
						kids = append(kids, verifC45Dir(name, m, verifC45File("inner", 0o600, 3)))
					default:
						l := verifC45Link(name, "target")
						l.mode = os.ModeSymlink | m
						kids = append(kids, l)
					}
				}
			}
		}
		trees = append(trees, &verifC45Tree{name: "modes", kids: kids})
	}
	// names
	{
		names := []string{"a b", " lead", "trail ", "a\xffb", "\xc3\x28", "é", "日本", "x\ty", "new\nline", "back\\slash", "quote\"q", "-dash", "a:b", "*?[x]", strings.Repeat("L", 200), "dot.", "~tilde", "%41", "\x7f"}
		var kids []*verifC45Node
		for i, n := range names {
			kids = append(kids, verifC45File("f "+n, 0o644, i%3))
			kids = append(kids, verifC45Dir("d "+n, 0o755, verifC45File(n, 0o640, 3), verifC45Link("l "+n, n)))
			kids = append(kids, verifC45Link("l "+n, "../"+n+"/"+n))
		}
		trees = append(trees, &verifC45Tree{name: "names", kids: kids})
	}
	// special
	{
		kids := verifC45Specials("top-")
		kids = append(kids, verifC45File("a", 0o644, 0), verifC45File("z", 0o644, 1),
			verifC45Dir("d", 0o755, append(verifC45Specials("in-"), verifC45File("m", 0o644, 3), verifC45Dir("e", 0o700, verifC45Specials("deep-")...))...))
		trees = append(trees, &verifC45Tree{name: "special", kids: kids})
	}
	// mixed (small)
	trees = append(trees, &verifC45Tree{name: "mixed", kids: verifC45Mixed()})
	trees = append(trees, &verifC45Tree{name: "sched", kids: verifC45Sched()})
	return trees
}

// verifC45Sched is the tree of the schedule exploration: 3 tree loads and 9 distinct data blobs; "a" has
// three blobs in flight at once, "r" repeats a blob that is in flight (cache join) and reuses one that is
// cached, "t" lives two levels down so that the walker's tree loads overlap with the writer's data loads.
func verifC45Sched() []*verifC45Node {
	return []*verifC45Node{
		verifC45File("a", 0o644, 5, 6, 7),
		verifC45Dir("d", 0o755,
			verifC45File("e", 0o600, 8),
			&verifC45Node{name: "fifo", typ: data.NodeTypeFifo, mode: os.ModeNamedPipe | 0o644},
			verifC45Link("l", "../a"),
			verifC45File("r", 0o444, 9, 5, 9),
			verifC45Dir("s", os.ModeSticky|0o777, verifC45File("t", os.ModeSetuid|0o755, 10, 11))),
		verifC45File("z", 0o640, 12, 13, 6),
	}
}

func verifC45Mixed() []*verifC45Node {
	return []*verifC45Node{
		verifC45File("a file", 0o644, 1),
		verifC45File("b\xffin", os.ModeSetuid|0o755, 0, 1, 2),
		verifC45Dir("dir", os.ModeSetgid|0o750,
			verifC45File("empty", 0o600),
			&verifC45Node{name: "fifo", typ: data.NodeTypeFifo, mode: os.ModeNamedPipe | 0o644},
			verifC45Link("link", "../a file"),
			verifC45File("rep", 0o444, 1, 0, 1),
			verifC45Dir("sub", os.ModeSticky|0o777, verifC45File("deep", 0o644, 2))),
		verifC45Link("l\xfe", "dir/\xfd"),
	}
}

// ---------------------------------------------------------------- archive oracles

// verifC45Diff is one difference between the archive and the model.
type verifC45Diff struct{ kind, what string }

func verifC45CompareTar(buf []byte, want []verifC45Entry, forbidden map[string]string) (diffs []verifC45Diff) {
	one := func(kind, what string) []verifC45Diff { return append(diffs, verifC45Diff{kind, what}) }
	tr := tar.NewReader(bytes.NewReader(buf))
	i := 0
	for {
		hdr, err := tr.Next()
		if err == io.EOF {
			break
		}
		if err != nil {
			return one("unreadable", fmt.Sprintf("tar stream unreadable after %d entries: %v", i, err))
		}
		if f, ok := forbidden[hdr.Name]; ok && (i >= len(want) || want[i].name != hdr.Name) {
			// an entry for a node that is neither file, directory nor symlink: record it and go on
			diffs = append(diffs, verifC45Diff{"special-node-emitted|" + f, fmt.Sprintf("the archive contains the entry %q (typeflag %q, mode %04o, size %d) for a node of type %s", hdr.Name, hdr.Typeflag, hdr.Mode, hdr.Size, f)})
			continue
		}
		if i >= len(want) {
			return one("extra-entry", fmt.Sprintf("extra entry %q (typeflag %q) after the %d expected entries", hdr.Name, hdr.Typeflag, len(want)))
		}
		w := want[i]
		if hdr.Name != w.name {
			return one("entry-sequence", fmt.Sprintf("entry %d is %q (typeflag %q, size %d), the model expects %q", i, hdr.Name, hdr.Typeflag, hdr.Size, w.name))
		}
		wantFlag := map[byte]byte{'f': tar.TypeReg, 'd': tar.TypeDir, 'l': tar.TypeSymlink}[w.typ]
		if hdr.Typeflag != wantFlag {
			return one("type", fmt.Sprintf("entry %q has typeflag %q, want %q", hdr.Name, hdr.Typeflag, wantFlag))
		}
		if hdr.Mode&0o7777 != w.bits {
			return one("mode", fmt.Sprintf("entry %q has mode %04o, want %04o", hdr.Name, hdr.Mode&0o7777, w.bits))
		}
		if hdr.Linkname != w.link {
			return one("linktarget", fmt.Sprintf("entry %q has link target %q, want %q", hdr.Name, hdr.Linkname, w.link))
		}
		body, err := io.ReadAll(tr)
		if err != nil {
			return one("unreadable", fmt.Sprintf("entry %q: %v", hdr.Name, err))
		}
		if w.typ == 'f' && hdr.Size != int64(len(w.content)) {
			return one("size", fmt.Sprintf("entry %q has size %d, want %d", hdr.Name, hdr.Size, len(w.content)))
		}
		if !bytes.Equal(body, w.content) {
			return one("content", fmt.Sprintf("entry %q: %d content bytes differ from the file's %d bytes (first difference at %d)", hdr.Name, len(body), len(w.content), verifC45FirstDiff(body, w.content)))
		}
		i++
	}
	if i < len(want) {
		return one("missing-entry", fmt.Sprintf("archive ends after %d entries, entry %q (%c) and %d more are missing", i, want[i].name, want[i].typ, len(want)-i-1))
	}
	return diffs
}

func verifC45FirstDiff(a, b []byte) int {
	for i := 0; i < len(a) && i < len(b); i++ {
		if a[i] != b[i] {
			return i
		}
	}
	if len(a) < len(b) {
		return len(a)
	}
	return len(b)
}

func verifC45CompareZip(buf []byte, want []verifC45Entry, forbidden map[string]string) (diffs []verifC45Diff) {
	one := func(kind, what string) []verifC45Diff { return append(diffs, verifC45Diff{kind, what}) }
	zr, err := zip.NewReader(bytes.NewReader(buf), int64(len(buf)))
	if err != nil {
		return one("unreadable", fmt.Sprintf("zip unreadable: %v", err))
	}
	i := 0
	for _, f := range zr.File {
		if fb, ok := forbidden[f.Name]; ok && (i >= len(want) || want[i].name != f.Name) {
			diffs = append(diffs, verifC45Diff{"special-node-emitted|" + fb, fmt.Sprintf("the archive contains the entry %q (mode %v, size %d) for a node of type %s", f.Name, f.Mode(), f.UncompressedSize64, fb)})
			continue
		}
		if i >= len(want) {
			return one("extra-entry", fmt.Sprintf("extra entry %q (mode %v) after the %d expected entries", f.Name, f.Mode(), len(want)))
		}
		w := want[i]
		if f.Name != w.name {
			return one("entry-sequence", fmt.Sprintf("entry %d is %q (mode %v, size %d), the model expects %q", i, f.Name, f.Mode(), f.UncompressedSize64, w.name))
		}
		m := f.Mode()
		wantType := map[byte]os.FileMode{'f': 0, 'd': os.ModeDir, 'l': os.ModeSymlink}[w.typ]
		if m&os.ModeType != wantType {
			return one("type", fmt.Sprintf("entry %q has mode %v, want type %v", f.Name, m, wantType))
		}
		if verifC45UnixBits(m) != w.bits {
			return one("mode", fmt.Sprintf("entry %q has mode %04o, want %04o", f.Name, verifC45UnixBits(m), w.bits))
		}
		rc, err := f.Open()
		if err != nil {
			return one("unreadable", fmt.Sprintf("entry %q: %v", f.Name, err))
		}
		body, err := io.ReadAll(rc)
		_ = rc.Close()
		if err != nil {
			return one("unreadable", fmt.Sprintf("entry %q: %v", f.Name, err))
		}
		wantBody := w.content
		if w.typ == 'l' {
			wantBody = []byte(w.link)
		}
		if w.typ == 'l' && !bytes.Equal(body, wantBody) {
			return one("linktarget", fmt.Sprintf("entry %q has link target %q, want %q", f.Name, body, wantBody))
		}
		if f.UncompressedSize64 != uint64(len(wantBody)) {
			return one("size", fmt.Sprintf("entry %q has size %d, want %d", f.Name, f.UncompressedSize64, len(wantBody)))
		}
		if !bytes.Equal(body, wantBody) {
			return one("content", fmt.Sprintf("entry %q: %d content bytes differ from the file's %d bytes (first difference at %d)", f.Name, len(body), len(wantBody), verifC45FirstDiff(body, wantBody)))
		}
		i++
	}
	if i < len(want) {
		return one("missing-entry", fmt.Sprintf("archive ends after %d entries, entry %q (%c) and %d more are missing", i, want[i].name, want[i].typ, len(want)-i-1))
	}
	return diffs
}

func verifC45Compare(format string, buf []byte, want []verifC45Entry, forbidden map[string]string) []verifC45Diff {
	if format == "tar" {
		return verifC45CompareTar(buf, want, forbidden)
	}
	return verifC45CompareZip(buf, want, forbidden)
}

// ---------------------------------------------------------------- loaders

// verifC45Conns is the real repository with a chosen connection count.
type verifC45Conns struct {
	*repository.Repository
	conns uint
}

func (c *verifC45Conns) Connections() uint { return c.conns }

type verifC45Err struct{ what string }

func (e *verifC45Err) Error() string { return "C45 injected load error for " + e.what }

// verifC45Gated serves the plaintext blobs of the fixture repository; every LoadBlob is a gate.
type verifC45Gated struct {
	x       *xplore.Exec
	conns   uint
	blobs   map[restic.BlobHandle][]byte
	label   map[restic.BlobHandle]string
	mu      sync.Mutex
	out     int
	maxOut  int
	loads   []string
	failed  []string
	foreign []string
}

func (g *verifC45Gated) Connections() uint { return g.conns }
func (g *verifC45Gated) LookupBlobSize(h restic.BlobHandle) (uint, bool) {
	b, ok := g.blobs[h]
	return uint(len(b)), ok
}
func (g *verifC45Gated) LoadBlob(ctx context.Context, h restic.BlobHandle, buf []byte) ([]byte, error) {
	if err := ctx.Err(); err != nil {
		return nil, err
	}
	b, ok := g.blobs[h]
	if !ok {
		g.mu.Lock()
		g.foreign = append(g.foreign, h.String())
		g.mu.Unlock()
		return nil, fmt.Errorf("C45: blob %v does not exist", h)
	}
	lab := g.label[h]
	g.mu.Lock()
	g.out++
	if g.out > g.maxOut {
		g.maxOut = g.out
	}
	g.mu.Unlock()
	a := g.x.Gate(xplore.Event{Key: "load:" + lab, Proc: "loader", Kind: "LoadBlob", Alts: []string{"ok", "err"}})
	g.mu.Lock()
	defer g.mu.Unlock()
	g.out--
	switch a {
	case 0:
		g.loads = append(g.loads, lab)
		// like Repository.LoadBlob: the plaintext is placed into the caller's buffer if it is large enough
		if cap(buf) >= len(b) && buf != nil {
			buf = buf[:len(b)]
			copy(buf, b)
			return buf, nil
		}
		return append([]byte(nil), b...), nil
	case 1:
		g.failed = append(g.failed, lab)
		return nil, &verifC45Err{what: lab}
	}
	return nil, errors.New("C45 teardown")
}

// ---------------------------------------------------------------- test

type verifC45Exec struct {
	g    *verifC45Gated
	buf  bytes.Buffer
	err  error
	done bool
}

func TestVerif_C45(t *testing.T) {
	r := vh.Start(t, "C45")
	defer r.Finish()
	r.Rule("part 1 (ENUM): every forged tree (seqs: all blob sequences of length <= 4 over 3 blobs; modes: type x special bits x permissions; names; special nodes nested and top-level; mixed) x format {tar,zip} x root path x Connections {1,2,4} on a real repository, plus the single-file dump of every file of seqs; a case is one (tree, format, root path, connections) dump or one single-file dump, non-trivial by construction (every case parses a complete archive of >= 9 entries or compares a whole file); evaluations also count the compared archive entries. part 2 (GATE): all completion orders and ok/err answers of the outstanding LoadBlob calls within the deviation bound; non-trivial = at least two loads outstanding at one step or an injected error. states = distinct complete schedules.")
	r.Assume("tree JSON is produced by data.TreeWriter (the codec is C41's subject)", "part 2 serves the plaintext that the real repository returned for each blob; the repository's own LoadBlob is exercised ungated in part 1", "the gated loader returns ctx.Err() without a gate when called with a cancelled context")
	ctx := context.Background()
	oracle.LowKDF()

	// ---- fixture
	restore := detrand.Install(4545)
	repo, _, err := oracle.NewRepo(ctx, 2, repository.Options{})
	if err != nil {
		t.Fatal(err)
	}
	trees := verifC45Trees()
	err = repo.WithBlobUploader(ctx, func(ctx context.Context, up restic.BlobSaverWithAsync) error {
		for _, b := range verifC45Pool {
			if _, _, _, err := up.SaveBlob(ctx, restic.DataBlob, b, restic.ID{}, false); err != nil {
				return err
			}
		}
		for _, tr := range trees {
			id, err := verifC45Forge(ctx, up, tr.kids)
			if err != nil {
				return err
			}
			tr.id = id
		}
		return nil
	})
	restore()
	if err != nil {
		t.Fatal(err)
	}
	byName := map[string]*verifC45Tree{}
	for _, tr := range trees {
		byName[tr.name] = tr
	}

	// ---- part 1: ENUM on the real repository
	rootPaths := []string{"/", "/some dir/sub"}
	for _, tr := range trees {
		for _, format := range []string{"tar", "zip"} {
			for _, rp := range rootPaths {
				for _, conns := range []uint{1, 2, 4} {
					key := fmt.Sprintf("enum|%s|%s|%s|c%d", tr.name, format, rp, conns)
					if !r.Case(key) {
						continue
					}
					want := verifC45Expected(tr.kids, rp)
					ld := &verifC45Conns{Repository: repo, conns: conns}
					var buf bytes.Buffer
					var derr error
					panicked, msg := vh.NoPanic(func() {
						var it data.TreeNodeIterator
						it, derr = data.LoadTree(ctx, ld, tr.id)
						if derr == nil {
							derr = dump.New(format, ld, &buf).DumpTree(ctx, it, rp)
						}
					})
					r.Eval(1 + int64(len(want)))
					r.Trace(1)
					r.NontrivialByConstruction(1)
					switch {
					case panicked:
						r.Violation(key, fmt.Sprintf("C45|panic|%s|%s", format, tr.name), "dump panicked: "+msg, map[string]any{"tree": tr.name, "format": format, "root": rp, "connections": conns})
						r.Outcome("enum:panic")
						continue
					case derr != nil:
						r.Violation(key, fmt.Sprintf("C45|dump-failed|%s|%s", format, tr.name), fmt.Sprintf("DumpTree of the intact tree %q as %s failed: %v", tr.name, format, derr), map[string]any{"tree": tr.name, "format": format, "root": rp, "connections": conns})
						r.Outcome("enum:error")
						continue
					}
					diffs := verifC45Compare(format, buf.Bytes(), want, verifC45Forbidden(tr.kids, rp))
					for _, d := range diffs {
						vkey := fmt.Sprintf("C45|%s|%s|%s", d.kind, format, tr.name)
						if strings.HasPrefix(d.kind, "special-node-emitted|") {
							vkey = fmt.Sprintf("C45|%s|%s", d.kind, format) // the same defect in whatever tree it shows
						}
						r.Violation(key, vkey, fmt.Sprintf("dump of tree %q as %s (root path %q, %d connections): %s", tr.name, format, rp, conns, d.what), map[string]any{"tree": tr.name, "format": format, "root": rp, "connections": conns})
						r.Outcome("enum:" + format + ":" + d.kind)
					}
					if len(diffs) == 0 {
						r.Outcome("enum:" + format + ":equal")
					}
					if tr.name == "mixed" && conns == 2 && rp == "/" {
						var names []string
						for _, w := range want {
							names = append(names, fmt.Sprintf("%c %q %04o", w.typ, w.name, w.bits))
						}
						r.Sample(map[string]any{"case": key, "archive_bytes": buf.Len(), "expected_entries": names})
					}
				}
			}
		}
	}
	// single-file dumps
	{
		var files []*verifC45Node
		var collect func(kids []*verifC45Node)
		collect = func(kids []*verifC45Node) {
			for _, k := range verifC45Sorted(kids) {
				if k.typ == data.NodeTypeFile {
					files = append(files, k)
				}
				collect(k.kids)
			}
		}
		collect(byName["seqs"].kids)
		for _, f := range files {
			for _, conns := range []uint{1, 2, 4} {
				key := fmt.Sprintf("enum|file|%s|c%d", f.name, conns)
				if !r.Case(key) {
					continue
				}
				node := &data.Node{Name: f.name, Type: data.NodeTypeFile, Size: uint64(len(f.content()))}
				for _, i := range f.blobs {
					node.Content = append(node.Content, restic.Hash(verifC45Pool[i]))
				}
				var buf bytes.Buffer
				ld := &verifC45Conns{Repository: repo, conns: conns}
				derr := dump.New("tar", ld, &buf).WriteNode(ctx, node)
				r.Eval(1)
				r.Trace(1)
				r.NontrivialByConstruction(1)
				if derr != nil {
					r.Violation(key, "C45|dump-failed|file", fmt.Sprintf("WriteNode(%s) failed: %v", f.name, derr), nil)
				} else if !bytes.Equal(buf.Bytes(), f.content()) {
					r.Violation(key, "C45|content|file", fmt.Sprintf("single-file dump of %s (blobs %v, %d connections) wrote %d bytes that differ from the file's %d bytes (first difference at %d)", f.name, f.blobs, conns, buf.Len(), len(f.content()), verifC45FirstDiff(buf.Bytes(), f.content())), nil)
				}
				r.Outcome("file:" + fmt.Sprint(derr == nil))
			}
		}
	}

	// ---- part 2: schedules
	plain := map[restic.BlobHandle][]byte{}
	label := map[restic.BlobHandle]string{}
	for i, b := range verifC45Pool {
		h := restic.BlobHandle{Type: restic.DataBlob, ID: restic.Hash(b)}
		plain[h] = b
		label[h] = fmt.Sprintf("b%d", i)
	}
	mixed := byName["sched"]
	{
		var reg func(kids []*verifC45Node, p string)
		reg = func(kids []*verifC45Node, p string) {
			for _, k := range kids {
				if k.typ == data.NodeTypeDir {
					h := restic.BlobHandle{Type: restic.TreeBlob, ID: k.id}
					buf, err := repo.LoadBlob(ctx, h, nil)
					if err != nil {
						t.Fatal(err)
					}
					plain[h] = buf
					label[h] = "tree:" + p + k.name
					reg(k.kids, p+k.name+"/")
				}
			}
		}
		h := restic.BlobHandle{Type: restic.TreeBlob, ID: mixed.id}
		buf, err := repo.LoadBlob(ctx, h, nil)
		if err != nil {
			t.Fatal(err)
		}
		plain[h] = buf
		label[h] = "tree:/"
		reg(mixed.kids, "/")
	}
	// the pipeline keeps the spaces small (a file's loads are only outstanding while it is being written),
	// so no deviation bound is needed: every completion order and every ok/err assignment is executed
	type scen struct {
		name   string
		format string // "" = single file
		conns  uint
		nblobs int // single file: number of distinct blobs
		cache  int // > 0: the dumper's blob cache holds only this many bytes (evictions while blobs wait for the writer)
	}
	scens := []scen{
		{"sched|tar|c2", "tar", 2, 0, 0}, {"sched|zip|c2", "zip", 2, 0, 0},
		{"sched|tar|c4", "tar", 4, 0, 0}, {"sched|zip|c4", "zip", 4, 0, 0},
		{"file5|c4", "", 4, 5, 0}, {"file5|c2", "", 2, 5, 0},
		// a cache with room for two of the pool's blobs: every further blob evicts one that may still be queued
		{"file5|c4|small-cache", "", 4, 5, verifC45SmallCache}, {"file5|c3|small-cache", "", 3, 5, verifC45SmallCache},
	}
	if r.Thorough() {
		scens = append(scens,
			scen{"sched|tar|c1", "tar", 1, 0, 0}, scen{"sched|zip|c1", "zip", 1, 0, 0},
			scen{"sched|tar|c3", "tar", 3, 0, 0}, scen{"sched|zip|c3", "zip", 3, 0, 0},
			scen{"sched|tar|c6", "tar", 6, 0, 0}, scen{"sched|zip|c6", "zip", 6, 0, 0},
			scen{"sched|tar|c4|small-cache", "tar", 4, 0, verifC45SmallCache}, scen{"file6|c4|small-cache", "", 4, 6, verifC45SmallCache},
			scen{"file5|c1", "", 1, 5, 0}, scen{"file5|c3", "", 3, 5, 0}, scen{"file6|c4", "", 4, 6, 0}, scen{"file6|c6", "", 6, 6, 0}, scen{"file7|c3", "", 3, 7, 0})
	}
	wantMixed := verifC45Expected(mixed.kids, "/")
	for _, s := range scens {
		s := s
		file5 := verifC45File("single", 0o644)
		for i := 0; i < s.nblobs; i++ {
			file5.blobs = append(file5.blobs, 5+i)
		}
		sc := xplore.Scenario{
			Start: func(x *xplore.Exec) {
				st := &verifC45Exec{g: &verifC45Gated{x: x, conns: s.conns, blobs: plain, label: label}}
				x.Data = st
				x.Go("dump", func() {
					defer func() { st.done = true }()
					if s.format == "" {
						node := &data.Node{Name: file5.name, Type: data.NodeTypeFile, Size: uint64(len(file5.content()))}
						for _, i := range file5.blobs {
							node.Content = append(node.Content, restic.Hash(verifC45Pool[i]))
						}
						d := dump.New("tar", st.g, &st.buf)
						if s.cache > 0 {
							dump.VerifSetCacheSize(d, s.cache)
						}
						st.err = d.WriteNode(x.Ctx, node)
						return
					}
					it, err := data.LoadTree(x.Ctx, st.g, mixed.id)
					if err != nil {
						st.err = err
						return
					}
					d := dump.New(s.format, st.g, &st.buf)
					if s.cache > 0 {
						dump.VerifSetCacheSize(d, s.cache)
					}
					st.err = d.DumpTree(x.Ctx, it, "/")
				})
			},
		}
		check := func(x *xplore.Exec) {
			st := x.Data.(*verifC45Exec)
			g := st.g
			tr := strings.Join(x.Trace, ">")
			r.State(s.name + ">" + tr)
			if g.maxOut >= 2 || len(g.failed) > 0 {
				r.Nontrivial(s.name + ">" + tr)
			}
			r.Outcome(fmt.Sprintf("%s:err=%v:maxout=%d", s.name, st.err != nil, g.maxOut))
			switch {
			case len(x.Panics) > 0:
				vx.Violation(r, s.name, x, "C45|panic|"+s.name, x.Panics[0], nil)
				return
			case x.Deadlock || x.Horizon || !st.done:
				vx.Violation(r, s.name, x, "C45|deadlock|"+s.name, "the dump never returned", nil)
				return
			case len(g.foreign) > 0:
				vx.Violation(r, s.name, x, "C45|foreign-load|"+s.name, fmt.Sprintf("blobs that are not part of the tree were loaded: %v", g.foreign), nil)
				return
			}
			if len(g.failed) > 0 {
				if st.err == nil {
					vx.Violation(r, s.name, x, "C45|error-lost|"+s.name, fmt.Sprintf("the dump returned nil although the loads of %v failed", g.failed), nil)
				}
				return
			}
			if st.err != nil {
				vx.Violation(r, s.name, x, "C45|dump-failed|"+s.name, fmt.Sprintf("the dump failed although every load succeeded: %v", st.err), nil)
				return
			}
			if s.format == "" {
				if !bytes.Equal(st.buf.Bytes(), file5.content()) {
					vx.Violation(r, s.name, x, "C45|content|"+s.name, fmt.Sprintf("single-file dump wrote %d bytes that differ from the file's %d bytes (first difference at %d); loads completed in the order %v", st.buf.Len(), len(file5.content()), verifC45FirstDiff(st.buf.Bytes(), file5.content()), g.loads), nil)
				}
				return
			}
			for _, d := range verifC45Compare(s.format, st.buf.Bytes(), wantMixed, verifC45Forbidden(mixed.kids, "/")) {
				vx.Violation(r, s.name, x, "C45|"+d.kind+"|"+s.name, d.what+fmt.Sprintf("; loads completed in the order %v", g.loads), nil)
			}
			if g.maxOut >= 3 {
				r.Sample(map[string]any{"scenario": s.name, "max_outstanding_loads": g.maxOut, "schedule": x.Labels})
			}
		}
		st := vx.Explore(r, t, s.name, sc, xplore.Options{Policy: xplore.FIFO, Bound: -1, MaxSteps: 400}, check)
		r.Count("execs "+s.name, st.Execs)
	}
	r.Extra("deviation_bound", "none (complete)")
}

// TestVerifRace_C45 runs the dump bodies of part 1 free under the race detector (real repository,
// 4 and 6 loader workers, regular and shrunk blob cache): the gated exploration of part 2 orders loader
// events only, accesses of the dumper's goroutines between two loader events are the race detector's business.
func TestVerifRace_C45(t *testing.T) {
	r := vh.Start(t, "C45")
	defer r.Finish()
	ctx := context.Background()
	oracle.LowKDF()
	restore := detrand.Install(4545)
	repo, _, err := oracle.NewRepo(ctx, 2, repository.Options{})
	if err != nil {
		t.Fatal(err)
	}
	trees := verifC45Trees()
	err = repo.WithBlobUploader(ctx, func(ctx context.Context, up restic.BlobSaverWithAsync) error {
		for _, b := range verifC45Pool {
			if _, _, _, err := up.SaveBlob(ctx, restic.DataBlob, b, restic.ID{}, false); err != nil {
				return err
			}
		}
		for _, tr := range trees {
			id, err := verifC45Forge(ctx, up, tr.kids)
			if err != nil {
				return err
			}
			tr.id = id
		}
		return nil
	})
	restore()
	if err != nil {
		t.Fatal(err)
	}
	for round := 0; round < 3; round++ {
		for _, tr := range trees {
			if tr.name != "sched" && tr.name != "seqs" && tr.name != "mixed" {
				continue
			}
			for _, format := range []string{"tar", "zip"} {
				for _, conns := range []uint{4, 6} {
					for _, cache := range []int{0, verifC45SmallCache} {
						want := verifC45Expected(tr.kids, "/")
						ld := &verifC45Conns{Repository: repo, conns: conns}
						var buf bytes.Buffer
						it, derr := data.LoadTree(ctx, ld, tr.id)
						if derr == nil {
							d := dump.New(format, ld, &buf)
							if cache > 0 {
								dump.VerifSetCacheSize(d, cache)
							}
							derr = d.DumpTree(ctx, it, "/")
						}
						r.Eval(1)
						if derr != nil {
							r.Violation("", "C45|free-running|dump-failed|"+format, fmt.Sprintf("free-running pass: DumpTree(%s, %s, conns=%d, cache=%d) failed: %v", tr.name, format, conns, cache, derr), nil)
							continue
						}
						for _, df := range verifC45Compare(format, buf.Bytes(), want, verifC45Forbidden(tr.kids, "/")) {
							r.Violation("", "C45|free-running|"+df.kind+"|"+format, fmt.Sprintf("free-running pass: dump of %s as %s (conns=%d, cache=%d): %s", tr.name, format, conns, cache, df.what), nil)
						}
					}
				}
			}
		}
	}
}

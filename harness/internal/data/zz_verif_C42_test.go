package data_test

// C42: traversals visit exactly the reachable trees and blobs.
//
// Engine GATE at the Loader.  A fake restic.Loader serves forged tree JSON
// (hand-written bytes, not produced by restic's encoder) for small DAGs of
// <= 7 trees: diamond, a subtree shared by two roots, a chain whose inner
// tree is also a root (plus a duplicated root), huge trees (LookupBlobSize
// reports > 50 MiB, they go to the dedicated worker; one shape with 14 of them,
// more than the huge-tree queue holds, explored with deviation bound 1), missing trees, trees
// that are not JSON at all ("garbage"), trees that become undecodable after a
// few valid entries ("partial"), dir entries without / with the null subtree
// id, the same subtree twice in one tree.  Every LoadBlob is a gate: the
// explorer decides the completion order of all concurrently outstanding loads
// and whether a load is answered with the bytes or with an injected error.
// The real data.FindUsedBlobs / data.StreamTrees / walker.Walk run as the
// driver goroutine; the worker pool goroutines they start park at the gates.
//
// Modes
//   find    data.FindUsedBlobs(roots) into an empty BlobSet
//   find2   two consecutive FindUsedBlobs calls (one per root) into ONE set
//           (the way `restic stats` uses it)
//   stream  data.StreamTrees with checker-style callbacks: skip = "seen"
//           set, process records and returns nil (so failed loads do not abort)
//   check   the real checker: the shape is stored in a real repository (mem
//           store, one snapshot per root, plus an unreferenced tree and blob);
//           checker.New(repo with gated LoadBlob, trackUnused).Structure, then
//           UnusedBlobs — the traversal `restic check` performs
//   walk    walker.Walk (sequential; error answers only) — every path of the
//           unfolded DAG in tree order
//
// Oracle (independent model: reachability on the labelled graph)
//   * find/find2, no fault delivered: err == nil, the set equals exactly
//     {tree handles} ∪ {data handles of file entries} reachable from the roots,
//     every reachable tree was loaded exactly once, no other blob was loaded,
//     the progress counter was advanced exactly once per root.
//   * find/find2, some load answered with an error / a missing / undecodable
//     tree loaded: err != nil and it is one of the delivered errors; the set
//     never contains anything that is not reachable (soundness also on failure).
//   * stream: StreamTrees returns nil; process was invoked exactly once for
//     every tree reachable when failed loads are leaves (a "partial" tree's
//     children listed before the damage are allowed but not demanded:
//     must ⊆ got ⊆ may), never for another tree, with err != nil exactly for
//     the failed loads, and with exactly the model's entries in order; skip is
//     always called from one goroutine (documented); progress == #roots.
//   * check: every reachable tree loaded exactly once, a TreeError is reported
//     exactly for the reachable trees that are missing / undecodable / failed to
//     load / contain a dir entry without (or with the null) subtree, the blobs
//     NOT listed by UnusedBlobs are exactly the reachable ones, progress ==
//     #roots.  A panic of the checker in a StreamTrees worker cannot be
//     recovered, so the half-decodable shape is first probed in a child process
//     (TestVerifProbe_C42); see findings/C42.md.
//   * walk: the sequence of ProcessNode/LeaveDir calls equals the model's
//     depth-first unfolding up to the first failing load, whose error is what
//     Walk returns.
//   * every branch terminates: a deadlock / exceeding the step horizon / a
//     panic is a violation.
//
// Deviation from DESIGN: the spaces are small enough (<= 7 loads, <= 6
// outstanding) that NO deviation bound is needed: every completion order and
// every ok/err assignment is executed (complete search).  Quick uses the
// shape's own connection count, thorough repeats every shape with Connections
// in {1,2,3,5} (2..6 normal workers + the huge-tree worker).  walker.Walk
// (anchored file) is added as a sequential fault enumeration.

import (
	"context"
	"encoding/hex"
	"errors"
	"fmt"
	"os"
	"os/exec"
	"runtime"
	"sort"
	"strconv"
	"strings"
	"sync"
	"testing"
	"time"

	"github.com/restic/restic/internal/checker"
	"github.com/restic/restic/internal/data"
	"github.com/restic/restic/internal/repository"
	"github.com/restic/restic/internal/restic"
	"github.com/restic/restic/internal/verifshim/detrand"
	"github.com/restic/restic/internal/verifshim/gatebe"
	"github.com/restic/restic/internal/verifshim/oracle"
	"github.com/restic/restic/internal/verifshim/vh"
	"github.com/restic/restic/internal/verifshim/vx"
	"github.com/restic/restic/internal/verifshim/xplore"
	"github.com/restic/restic/internal/walker"
)

// ---------------------------------------------------------------- model

type verifC42Ent struct {
	name    string
	dir     string   // label of the subtree ("" = not a dir)
	blobs   []string // labels of the content blobs (files)
	nilSub  bool     // dir entry without "subtree"
	nullSub bool     // dir entry whose subtree is the null id
	symlink bool
}

type verifC42Tree struct {
	label string
	kind  string // "", "huge", "missing", "garbage", "partial"
	ents  []verifC42Ent
}

type verifC42Shape struct {
	name  string
	bound int // 0: complete search; > 0: deviation bound for this shape (many loads)
	conns uint
	trees []verifC42Tree // children first
	roots []string
}

type verifC42Model struct {
	sh    *verifC42Shape
	id    map[string]restic.ID
	label map[restic.ID]string
	raw   map[string][]byte
	tree  map[string]*verifC42Tree
}

func verifC42DataBytes(label string) []byte { return []byte("C42 data blob " + label) }
func verifC42DataID(label string) restic.ID { return restic.Hash(verifC42DataBytes(label)) }

func verifC42Build(sh *verifC42Shape) *verifC42Model {
	m := &verifC42Model{sh: sh, id: map[string]restic.ID{}, label: map[restic.ID]string{}, raw: map[string][]byte{}, tree: map[string]*verifC42Tree{}}
	for i := range sh.trees {
		t := &sh.trees[i]
		m.tree[t.label] = t
		var buf []byte
		switch t.kind {
		case "missing":
			m.id[t.label] = restic.Hash([]byte("C42 missing tree " + t.label))
			m.label[m.id[t.label]] = t.label
			continue
		case "garbage":
			buf = []byte("C42 this is not a tree object: " + t.label)
		default:
			var sb strings.Builder
			sb.WriteString(`{"nodes":[`)
			for j, e := range t.ents {
				if j > 0 {
					sb.WriteByte(',')
				}
				switch {
				case e.symlink:
					fmt.Fprintf(&sb, `{"name":%q,"type":"symlink","linktarget":"x","content":null}`, e.name)
				case e.nilSub:
					fmt.Fprintf(&sb, `{"name":%q,"type":"dir","mode":2147484141,"content":null}`, e.name)
				case e.nullSub:
					fmt.Fprintf(&sb, `{"name":%q,"type":"dir","content":null,"subtree":%q}`, e.name, strings.Repeat("00", 32))
				case e.dir != "":
					id, ok := m.id[e.dir]
					if !ok {
						panic("C42 fixture: tree " + e.dir + " must be defined before " + t.label)
					}
					fmt.Fprintf(&sb, `{"name":%q,"type":"dir","mode":2147484141,"content":null,"subtree":%q}`, e.name, hex.EncodeToString(id[:]))
				default:
					var ids []string
					for _, b := range e.blobs {
						id := verifC42DataID(b)
						ids = append(ids, `"`+hex.EncodeToString(id[:])+`"`)
					}
					fmt.Fprintf(&sb, `{"name":%q,"type":"file","mode":420,"size":%d,"content":[%s]}`, e.name, len(e.blobs), strings.Join(ids, ","))
				}
			}
			if t.kind == "partial" {
				if len(t.ents) > 0 {
					sb.WriteByte(',')
				}
				sb.WriteString(`{"name":17,"type":"file"}`)
			}
			sb.WriteString("]}\n")
			buf = []byte(sb.String())
		}
		m.raw[t.label] = buf
		m.id[t.label] = restic.Hash(buf)
		if other, dup := m.label[m.id[t.label]]; dup {
			panic("C42 fixture: trees " + other + " and " + t.label + " have identical content")
		}
		m.label[m.id[t.label]] = t.label
	}
	return m
}

func (m *verifC42Model) bad(label string) bool {
	k := m.tree[label].kind
	return k == "missing" || k == "garbage"
}

// reach computes the labels of reachable trees and data blobs.  failed trees
// (load answered with an error) and missing/garbage trees are leaves.  may=true
// also follows the entries that a "partial" tree lists before its damage.
func (m *verifC42Model) reach(roots []string, failed map[string]bool, may bool) (trees, blobs map[string]bool) {
	trees, blobs = map[string]bool{}, map[string]bool{}
	var visit func(l string)
	visit = func(l string) {
		if trees[l] {
			return
		}
		trees[l] = true
		t := m.tree[l]
		if failed[l] || m.bad(l) || (t.kind == "partial" && !may) {
			return
		}
		for _, e := range t.ents {
			switch {
			case e.symlink, e.nilSub, e.nullSub:
			case e.dir != "":
				visit(e.dir)
			default:
				for _, b := range e.blobs {
					blobs[b] = true
				}
			}
		}
	}
	for _, r := range roots {
		visit(r)
	}
	return
}

func verifC42Keys(m map[string]bool) string {
	l := make([]string, 0, len(m))
	for k := range m {
		l = append(l, k)
	}
	sort.Strings(l)
	return strings.Join(l, ",")
}

// ---------------------------------------------------------------- gated loader

type verifC42Err struct{ label, why string }

func (e *verifC42Err) Error() string { return "C42 " + e.why + " for tree " + e.label }

type verifC42LoadRec struct{ label, answer string }

type verifC42Loader struct {
	m        *verifC42Model
	x        *xplore.Exec
	mu       sync.Mutex
	recs     []verifC42LoadRec // in completion order
	issued   []string          // in call order
	foreign  []string          // loads of handles that are not trees of the model
	maxOut   int
	out      int
	lookups  int
	faulted  map[string]bool // labels whose load delivered a fault (err / missing / garbage / partial)
	real     restic.Loader   // check mode: answers "ok"/"notfound" are served by this real repository
	injected map[string]bool // labels answered "err"
}

func (l *verifC42Loader) Connections() uint { return l.m.sh.conns }

func (l *verifC42Loader) LookupBlobSize(h restic.BlobHandle) (uint, bool) {
	l.mu.Lock()
	l.lookups++
	l.mu.Unlock()
	lab, ok := l.m.label[h.ID]
	if !ok || h.Type != restic.TreeBlob || l.m.tree[lab].kind == "missing" {
		return 0, false
	}
	if l.m.tree[lab].kind == "huge" {
		return 50*1024*1024 + 1, true
	}
	return uint(len(l.m.raw[lab])), true
}

func (l *verifC42Loader) LoadBlob(ctx context.Context, h restic.BlobHandle, _ []byte) ([]byte, error) {
	lab, ok := l.m.label[h.ID]
	if !ok || h.Type != restic.TreeBlob {
		l.mu.Lock()
		l.foreign = append(l.foreign, h.String())
		l.mu.Unlock()
		return nil, &verifC42Err{label: h.String(), why: "load of a blob that does not exist in the model"}
	}
	alts := []string{"ok", "err"}
	if l.m.tree[lab].kind == "missing" {
		alts = []string{"notfound"}
	}
	l.mu.Lock()
	l.issued = append(l.issued, lab)
	l.out++
	if l.out > l.maxOut {
		l.maxOut = l.out
	}
	l.mu.Unlock()
	a := l.x.Gate(xplore.Event{Key: "load:" + lab, Proc: "loader", Kind: "LoadBlob", Alts: alts})
	l.mu.Lock()
	defer l.mu.Unlock()
	l.out--
	switch {
	case a < 0:
		return nil, &verifC42Err{label: lab, why: "teardown"}
	case l.m.tree[lab].kind == "missing":
		l.recs = append(l.recs, verifC42LoadRec{lab, "notfound"})
		l.faulted[lab] = true
		if l.real != nil {
			buf, err := l.real.LoadBlob(ctx, h, nil)
			if err == nil {
				return buf, errors.New("C42 fixture: the missing tree exists in the repository")
			}
			return nil, err
		}
		return nil, &verifC42Err{label: lab, why: "blob not found"}
	case a == 1:
		l.recs = append(l.recs, verifC42LoadRec{lab, "err"})
		l.faulted[lab] = true
		l.injected[lab] = true
		return nil, &verifC42Err{label: lab, why: "injected load error"}
	}
	l.recs = append(l.recs, verifC42LoadRec{lab, "ok"})
	if k := l.m.tree[lab].kind; k == "garbage" || k == "partial" {
		l.faulted[lab] = true
	}
	if l.real != nil {
		return l.real.LoadBlob(ctx, h, nil)
	}
	return append([]byte(nil), l.m.raw[lab]...), nil
}

// verifC42CheckRepo is a real repository whose LoadBlob is gated (check mode).
type verifC42CheckRepo struct {
	*repository.Repository
	ld *verifC42Loader
}

func (g *verifC42CheckRepo) LoadBlob(ctx context.Context, h restic.BlobHandle, buf []byte) ([]byte, error) {
	return g.ld.LoadBlob(ctx, h, buf)
}

func (g *verifC42CheckRepo) LookupBlobSize(h restic.BlobHandle) (uint, bool) {
	if lab, ok := g.ld.m.label[h.ID]; ok && h.Type == restic.TreeBlob && g.ld.m.tree[lab].kind == "huge" {
		return 50*1024*1024 + 1, true
	}
	return g.Repository.LookupBlobSize(h)
}

const verifC42Unref = "unreferenced"

// verifC42Fixture stores the shape in a real repository (one snapshot per root, plus one tree and one
// data blob that nothing references) and returns the store state.
func verifC42Fixture(t *testing.T, m *verifC42Model) gatebe.State {
	ctx := context.Background()
	// deterministic keys and nonces: the snapshot file names (= the order in which the checker lists
	// the roots) must be the same in every shard and every run
	defer detrand.Install(4242)()
	repo, store, err := oracle.NewRepo(ctx, 2, repository.Options{})
	if err != nil {
		t.Fatal(err)
	}
	err = repo.WithBlobUploader(ctx, func(ctx context.Context, up restic.BlobSaverWithAsync) error {
		seen := map[string]bool{verifC42Unref: true}
		if _, _, _, err := up.SaveBlob(ctx, restic.DataBlob, verifC42DataBytes(verifC42Unref), restic.ID{}, false); err != nil {
			return err
		}
		uid := verifC42DataID(verifC42Unref)
		if _, _, _, err := up.SaveBlob(ctx, restic.TreeBlob, []byte(fmt.Sprintf(`{"nodes":[{"name":"u","type":"file","content":["%s"]}]}`+"\n", hex.EncodeToString(uid[:]))), restic.ID{}, false); err != nil {
			return err
		}
		for _, tr := range m.sh.trees {
			if tr.kind != "missing" {
				id, _, _, err := up.SaveBlob(ctx, restic.TreeBlob, m.raw[tr.label], restic.ID{}, false)
				if err != nil {
					return err
				}
				if id != m.id[tr.label] {
					return fmt.Errorf("tree %s stored under an unexpected id", tr.label)
				}
			}
			for _, e := range tr.ents {
				for _, b := range e.blobs {
					if !seen[b] {
						seen[b] = true
						if _, _, _, err := up.SaveBlob(ctx, restic.DataBlob, verifC42DataBytes(b), restic.ID{}, false); err != nil {
							return err
						}
					}
				}
			}
		}
		return nil
	})
	if err != nil {
		t.Fatal(err)
	}
	for i, root := range m.sh.roots {
		sn, err := data.NewSnapshot([]string{"/c42/" + root}, nil, fmt.Sprintf("host%d", i), time.Unix(1600000000+int64(i), 0))
		if err != nil {
			t.Fatal(err)
		}
		id := m.id[root]
		sn.Tree = &id
		if _, err := data.SaveSnapshot(ctx, repo, sn); err != nil {
			t.Fatal(err)
		}
	}
	return store.Snapshot()
}

type verifC42Counter struct {
	mu  sync.Mutex
	n   uint64
	max uint64
}

func (c *verifC42Counter) Add(n uint64)          { c.mu.Lock(); c.n += n; c.mu.Unlock() }
func (c *verifC42Counter) SetMax(n uint64)       { c.mu.Lock(); c.max = n; c.mu.Unlock() }
func (c *verifC42Counter) Get() (uint64, uint64) { c.mu.Lock(); defer c.mu.Unlock(); return c.n, c.max }
func (c *verifC42Counter) Done()                 {}

func verifC42GID() string {
	var buf [64]byte
	s := string(buf[:runtime.Stack(buf[:], false)])
	s = strings.TrimPrefix(s, "goroutine ")
	if i := strings.IndexByte(s, ' '); i > 0 {
		return s[:i]
	}
	return "?"
}

// ---------------------------------------------------------------- per-execution state

type verifC42Proc struct {
	label   string
	errNil  bool
	errLab  string // label carried by a *verifC42Err
	names   []string
	itemErr bool
	blobs   []restic.ID
}

type verifC42Visit struct {
	parent, path, name, typ string
	err                     bool
}

type verifC42Exec struct {
	ld      *verifC42Loader
	ctr     *verifC42Counter
	done    bool
	err     error
	blobs   restic.BlobSet
	mu      sync.Mutex
	procs   []verifC42Proc
	skipG   map[string]bool
	visits  []verifC42Visit
	walkErr error
	maxPend int
	calls   int // completed top-level calls (find2 / walk)
	// check mode
	infra    error
	treeErrs map[string][]string
	otherErr []string
	used     map[string]bool // "tree:<label>" / "data:<label>" of the blobs the checker considers referenced
}

func (m *verifC42Model) rootIDs(labels []string) restic.IDs {
	var ids restic.IDs
	for _, r := range labels {
		ids = append(ids, m.id[r])
	}
	return ids
}

func (m *verifC42Model) lab(id restic.ID) string {
	if l, ok := m.label[id]; ok {
		return l
	}
	return "?" + id.Str()
}

func verifC42Scenario(r *vh.Run, mode string, m *verifC42Model, name string, base gatebe.State) (xplore.Scenario, func(x *xplore.Exec)) {
	sh := m.sh
	dataLabels := map[restic.ID]string{verifC42DataID(verifC42Unref): verifC42Unref}
	for _, t := range sh.trees {
		for _, e := range t.ents {
			for _, b := range e.blobs {
				dataLabels[verifC42DataID(b)] = b
			}
		}
	}
	dataLabel := func(id restic.ID) string {
		if l, ok := dataLabels[id]; ok {
			return l
		}
		return "?" + id.Str()
	}
	sc := xplore.Scenario{
		Start: func(x *xplore.Exec) {
			st := &verifC42Exec{ctr: &verifC42Counter{}, blobs: restic.NewBlobSet(), skipG: map[string]bool{}}
			st.ld = &verifC42Loader{m: m, x: x, faulted: map[string]bool{}, injected: map[string]bool{}}
			x.Data = st
			x.Go("driver", func() {
				switch mode {
				case "find":
					st.err = data.FindUsedBlobs(x.Ctx, st.ld, m.rootIDs(sh.roots), st.blobs, st.ctr)
				case "find2":
					for _, root := range sh.roots {
						st.err = data.FindUsedBlobs(x.Ctx, st.ld, m.rootIDs([]string{root}), st.blobs, st.ctr)
						if st.err != nil {
							break
						}
						st.calls++
					}
				case "stream":
					seen := restic.NewBlobSet()
					st.err = data.StreamTrees(x.Ctx, st.ld, m.rootIDs(sh.roots), st.ctr, func(id restic.ID) bool {
						g := verifC42GID()
						st.mu.Lock()
						st.skipG[g] = true
						st.mu.Unlock()
						h := restic.BlobHandle{ID: id, Type: restic.TreeBlob}
						was := seen.Has(h)
						seen.Insert(h)
						return was
					}, func(id restic.ID, err error, nodes data.TreeNodeIterator) error {
						p := verifC42Proc{label: m.lab(id), errNil: err == nil}
						var ce *verifC42Err
						if errors.As(err, &ce) {
							p.errLab = ce.label
						}
						if err == nil {
							// contract: read nodes until completion
							for item := range nodes {
								if item.Error != nil {
									p.itemErr = true
									continue
								}
								p.names = append(p.names, item.Node.Name)
								if item.Node.Type == data.NodeTypeFile {
									p.blobs = append(p.blobs, item.Node.Content...)
								}
							}
						}
						st.mu.Lock()
						st.procs = append(st.procs, p)
						st.mu.Unlock()
						return nil
					})
				case "check":
					be := &gatebe.Backend{S: gatebe.NewStoreFrom(base, nil), Proc: "check", Conns: sh.conns, AtomicReplace: true}
					repo, err := oracle.OpenOn(x.Ctx, be, repository.Options{})
					if err != nil {
						st.infra = err
						break
					}
					st.ld.real = repo
					chk := checker.New(&verifC42CheckRepo{Repository: repo, ld: st.ld}, true)
					if err := chk.LoadSnapshots(x.Ctx, &data.SnapshotFilter{}, nil); err != nil {
						st.infra = err
						break
					}
					if hints, errs := chk.LoadIndex(x.Ctx, restic.NoopTerminalCounterFactory); len(hints)+len(errs) > 0 {
						st.infra = fmt.Errorf("LoadIndex: %v %v", hints, errs)
						break
					}
					errChan := make(chan error)
					go chk.Structure(x.Ctx, st.ctr, errChan)
					st.treeErrs = map[string][]string{}
					for e := range errChan {
						var te *checker.TreeError
						if errors.As(e, &te) {
							for _, ee := range te.Errors {
								st.treeErrs[m.lab(te.ID)] = append(st.treeErrs[m.lab(te.ID)], ee.Error())
							}
						} else {
							st.otherErr = append(st.otherErr, e.Error())
						}
					}
					unused, err := chk.UnusedBlobs(x.Ctx)
					if err != nil {
						st.infra = err
						break
					}
					un := restic.NewBlobSet(unused...)
					st.used = map[string]bool{}
					st.err = repo.ListBlobs(x.Ctx, func(pb restic.PackBlob) {
						h := pb.Handle()
						if un.Has(h) {
							return
						}
						if h.Type == restic.TreeBlob {
							st.used["tree:"+m.lab(h.ID)] = true
						} else {
							st.used["data:"+dataLabel(h.ID)] = true
						}
					})
				case "walk":
					for _, root := range sh.roots {
						rootID := m.id[root]
						err := walker.Walk(x.Ctx, st.ld, rootID, walker.WalkVisitor{
							ProcessNode: func(parent restic.ID, path string, node *data.Node, nodeErr error) error {
								v := verifC42Visit{parent: m.lab(parent), path: path, err: nodeErr != nil}
								if node != nil {
									v.name, v.typ = node.Name, string(node.Type)
								}
								st.visits = append(st.visits, v)
								return nodeErr
							},
							LeaveDir: func(path string) error {
								st.visits = append(st.visits, verifC42Visit{path: path, typ: "leave"})
								return nil
							},
						})
						if err != nil {
							st.err = err
							break
						}
						st.calls++
					}
				}
				st.done = true
			})
		},
		OnStep: func(x *xplore.Exec) {
			st := x.Data.(*verifC42Exec)
			if n := len(x.Pending()); n > st.maxPend {
				st.maxPend = n
			}
		},
	}
	check := func(x *xplore.Exec) {
		st := x.Data.(*verifC42Exec)
		ld := st.ld
		var bad []string // "kind\x00text"
		fail := func(kind, format string, a ...any) { bad = append(bad, kind+"\x00"+fmt.Sprintf(format, a...)) }

		r.State(name + ">" + strings.Join(x.Trace, ">"))
		if st.maxPend >= 2 || len(ld.injected) > 0 {
			r.Nontrivial(name + ">" + strings.Join(x.Trace, ">"))
		}
		for _, p := range x.Panics {
			fail("panic", "panic: %s", p)
		}
		if x.Deadlock {
			fail("deadlock", "the traversal never returned: no load is outstanding and nothing can make progress (outstanding/issued loads: %v, completed: %v)", ld.issued, ld.recs)
		}
		if x.Horizon {
			fail("horizon", "the traversal did not finish within the step horizon")
		}
		if len(bad) == 0 && !st.done {
			fail("deadlock", "the driver did not finish")
		}
		if len(ld.foreign) > 0 && mode != "walk" { // walk mode: the null subtree id is loaded by design and must fail (modelled)
			fail("foreign-load", "blobs that are not trees of the snapshot graph were loaded: %v", ld.foreign)
		}
		loads := map[string]int{}
		for _, l := range ld.issued {
			loads[l]++
		}
		if st.done && len(bad) == 0 {
			switch mode {
			case "find", "find2":
				verifC42CheckFind(m, st, loads, mode, fail)
			case "stream":
				verifC42CheckStream(m, st, loads, fail)
			case "walk":
				verifC42CheckWalk(m, st, fail)
			case "check":
				verifC42CheckCheck(m, st, loads, fail)
			}
		}
		out := mode + ":" + sh.name + ":err=" + strconv.FormatBool(st.err != nil) + ":faults=" + verifC42Keys(ld.faulted)
		r.Outcome(out)
		if st.maxPend >= 3 {
			r.Sample(map[string]any{"scenario": name, "schedule": x.Labels, "max_outstanding_loads": st.maxPend, "returned_error": fmt.Sprint(st.err)})
		}
		if len(bad) > 0 {
			kind, text, _ := strings.Cut(bad[0], "\x00")
			var all []string
			for _, b := range bad {
				_, t, _ := strings.Cut(b, "\x00")
				all = append(all, t)
			}
			_ = text
			vx.Violation(r, name, x, "C42|"+kind+"|"+name, strings.Join(all, "\n"), map[string]any{"roots": sh.roots, "completed_loads": fmt.Sprint(ld.recs)})
		}
	}
	return sc, check
}

func verifC42CheckFind(m *verifC42Model, st *verifC42Exec, loads map[string]int, mode string, fail func(kind, format string, a ...any)) {
	ld := st.ld
	sh := m.sh
	// decode the result set into labels
	gotT, gotD := map[string]bool{}, map[string]bool{}
	dataLabel := map[restic.ID]string{}
	for _, t := range sh.trees {
		for _, e := range t.ents {
			for _, b := range e.blobs {
				dataLabel[verifC42DataID(b)] = b
			}
		}
	}
	for h := range st.blobs {
		switch h.Type {
		case restic.TreeBlob:
			gotT[m.lab(h.ID)] = true
		case restic.DataBlob:
			if l, ok := dataLabel[h.ID]; ok {
				gotD[l] = true
			} else {
				gotD["?"+h.ID.Str()] = true
			}
		default:
			fail("wrong-set", "result set contains a handle of type %v", h.Type)
		}
	}
	mayT, mayD := m.reach(sh.roots, nil, true)
	for l, n := range loads {
		if n > 1 {
			fail("loaded-twice", "tree %s was loaded %d times (each tree must be processed once)", l, n)
		}
		if !mayT[l] {
			fail("unreachable-load", "tree %s was loaded although it is not reachable from the roots %v", l, sh.roots)
		}
	}
	for l := range gotT {
		if !mayT[l] {
			fail("wrong-set", "result set contains tree %s which is not reachable from the roots %v", l, sh.roots)
		}
	}
	for l := range gotD {
		if !mayD[l] {
			fail("wrong-set", "result set contains data blob %s which is not referenced by a reachable tree", l)
		}
	}
	if n, _ := st.ctr.Get(); int(n) > len(sh.roots) {
		fail("progress", "progress counter advanced %d times for %d roots", n, len(sh.roots))
	}
	if len(ld.faulted) > 0 {
		if st.err == nil {
			fail("error-lost", "FindUsedBlobs returned nil although loads delivered faults for trees %s (completed loads %v)", verifC42Keys(ld.faulted), ld.recs)
			return
		}
		var ce *verifC42Err
		switch {
		case errors.As(st.err, &ce):
			if !ld.faulted[ce.label] {
				fail("wrong-error", "returned error %q does not belong to a load that failed (%s)", st.err, verifC42Keys(ld.faulted))
			}
		default:
			// a decoding error: must come from a garbage/partial tree that was delivered
			okDecode := false
			for l := range ld.faulted {
				if k := m.tree[l].kind; k == "garbage" || k == "partial" {
					okDecode = true
				}
			}
			if !okDecode {
				fail("wrong-error", "returned error %q is none of the injected errors and no undecodable tree was delivered", st.err)
			}
		}
		return
	}
	if st.err != nil {
		fail("spurious-error", "FindUsedBlobs returned %q although every load succeeded", st.err)
		return
	}
	// success: exact equality (no bad tree was reachable, so must == may unless a partial tree exists, which would have faulted)
	if g, w := verifC42Keys(gotT), verifC42Keys(mayT); g != w {
		fail("wrong-set", "trees in the result set {%s} != reachable trees {%s}", g, w)
	}
	if g, w := verifC42Keys(gotD), verifC42Keys(mayD); g != w {
		fail("wrong-set", "data blobs in the result set {%s} != data blobs of reachable trees {%s}", g, w)
	}
	for l := range mayT {
		if loads[l] != 1 {
			fail("not-once", "reachable tree %s was loaded %d times, want exactly once", l, loads[l])
		}
	}
	if n, _ := st.ctr.Get(); int(n) != len(sh.roots) {
		fail("progress", "progress counter advanced %d times for %d roots", n, len(sh.roots))
	}
}

func verifC42CheckStream(m *verifC42Model, st *verifC42Exec, loads map[string]int, fail func(kind, format string, a ...any)) {
	ld := st.ld
	sh := m.sh
	if st.err != nil {
		fail("spurious-error", "StreamTrees returned %q although process never returned an error", st.err)
	}
	mustT, _ := m.reach(sh.roots, ld.injected, false)
	mayT, _ := m.reach(sh.roots, ld.injected, true)
	cnt := map[string]int{}
	for _, p := range st.procs {
		cnt[p.label]++
	}
	for l, n := range cnt {
		if n > 1 {
			fail("processed-twice", "process was invoked %d times for tree %s", n, l)
		}
		if !mayT[l] {
			fail("unreachable-processed", "process was invoked for tree %s which is not reachable from %v (failed loads: %s)", l, sh.roots, verifC42Keys(ld.injected))
		}
	}
	for l := range mustT {
		if cnt[l] == 0 {
			fail("not-processed", "reachable tree %s was never passed to process (failed loads: %s; processed: %v)", l, verifC42Keys(ld.injected), cnt)
		}
	}
	for l, n := range loads {
		if n > 1 {
			fail("loaded-twice", "tree %s was loaded %d times", l, n)
		}
	}
	for _, p := range st.procs {
		t, ok := m.tree[p.label]
		if !ok {
			continue
		}
		wantErr := ld.injected[p.label] || m.bad(p.label)
		if wantErr == p.errNil {
			fail("wrong-process-error", "process(%s) got err-is-nil=%v, but its load %s", p.label, p.errNil, map[bool]string{true: "failed", false: "succeeded"}[wantErr])
			continue
		}
		if wantErr {
			if p.errLab != p.label && t.kind != "garbage" {
				fail("wrong-process-error", "process(%s) got the error of tree %q", p.label, p.errLab)
			}
			continue
		}
		var want []string
		var wantBlobs []restic.ID
		for _, e := range t.ents {
			want = append(want, e.name)
			for _, b := range e.blobs {
				wantBlobs = append(wantBlobs, verifC42DataID(b))
			}
		}
		if strings.Join(p.names, "\x00") != strings.Join(want, "\x00") || fmt.Sprint(p.blobs) != fmt.Sprint(wantBlobs) {
			fail("wrong-nodes", "process(%s) saw entries %q, want %q (or different content ids)", p.label, p.names, want)
		}
		if p.itemErr != (t.kind == "partial") {
			fail("wrong-nodes", "process(%s): decode error while iterating = %v, tree kind %q", p.label, p.itemErr, t.kind)
		}
	}
	if len(st.skipG) > 1 {
		fail("skip-goroutine", "skip was called from %d different goroutines", len(st.skipG))
	}
	if n, _ := st.ctr.Get(); int(n) != len(sh.roots) {
		fail("progress", "progress counter advanced %d times for %d roots", n, len(sh.roots))
	}
}

func verifC42CheckCheck(m *verifC42Model, st *verifC42Exec, loads map[string]int, fail func(kind, format string, a ...any)) {
	ld := st.ld
	sh := m.sh
	if st.infra != nil {
		fail("check-infra", "the checker could not be run: %v", st.infra)
		return
	}
	if st.err != nil {
		fail("check-infra", "ListBlobs: %v", st.err)
	}
	if len(st.otherErr) > 0 {
		fail("check-error", "Structure reported errors that do not belong to a tree: %v", st.otherErr)
	}
	mustT, mustD := m.reach(sh.roots, ld.injected, false)
	mayT, mayD := m.reach(sh.roots, ld.injected, true)
	for l, n := range loads {
		if n > 1 {
			fail("loaded-twice", "tree %s was loaded %d times", l, n)
		}
		if !mayT[l] {
			fail("unreachable-load", "tree %s was loaded although it is not reachable", l)
		}
	}
	for l := range mustT {
		if loads[l] != 1 {
			fail("not-once", "reachable tree %s was loaded %d times, want exactly once", l, loads[l])
		}
	}
	// which trees must be reported
	faulty := func(l string) bool {
		t := m.tree[l]
		if ld.injected[l] || m.bad(l) || t.kind == "partial" {
			return true
		}
		for _, e := range t.ents {
			if e.nilSub || e.nullSub {
				return true
			}
		}
		return false
	}
	for l := range mustT {
		if faulty(l) && len(st.treeErrs[l]) == 0 {
			fail("check-silent", "the checker reported no error for tree %s (kind %q, load failed=%v)", l, m.tree[l].kind, ld.injected[l])
		}
	}
	for l, es := range st.treeErrs {
		if !mayT[l] || !faulty(l) {
			fail("check-false-error", "the checker reported errors for the intact tree %s: %v", l, es)
		}
	}
	// the referenced-blob set (complement of UnusedBlobs within the repository)
	must, may := map[string]bool{}, map[string]bool{}
	for l := range mustT {
		if m.tree[l].kind != "missing" {
			must["tree:"+l] = true
		}
	}
	for l := range mayT {
		if m.tree[l].kind != "missing" {
			may["tree:"+l] = true
		}
	}
	for l := range mustD {
		must["data:"+l] = true
	}
	for l := range mayD {
		may["data:"+l] = true
	}
	for k := range must {
		if !st.used[k] {
			fail("wrong-set", "the checker considers %s unused although it is reachable (used: {%s})", k, verifC42Keys(st.used))
		}
	}
	for k := range st.used {
		if !may[k] {
			fail("wrong-set", "the checker considers %s referenced although it is not reachable (failed loads: %s)", k, verifC42Keys(ld.injected))
		}
	}
	if n, _ := st.ctr.Get(); int(n) != len(sh.roots) {
		fail("progress", "progress counter advanced %d times for %d roots", n, len(sh.roots))
	}
}

// verifC42CheckWalk replays the recorded load answers through a model of the
// depth-first walk and compares the sequence of visitor calls.
func verifC42CheckWalk(m *verifC42Model, st *verifC42Exec, fail func(kind, format string, a ...any)) {
	ld := st.ld
	sh := m.sh
	recs := ld.recs
	next := 0
	var want []verifC42Visit
	failed := false
	mismatch := ""
	// load returns whether the tree can be iterated
	load := func(label string) bool {
		if next >= len(recs) || recs[next].label != label {
			if mismatch == "" {
				mismatch = fmt.Sprintf("load #%d: model expects tree %s, real loads: %v", next, label, recs)
			}
			failed = true
			return false
		}
		a := recs[next].answer
		next++
		return a == "ok" && m.tree[label].kind != "garbage"
	}
	var walk func(label, prefix string)
	walk = func(label, prefix string) {
		t := m.tree[label]
		for _, e := range t.ents {
			if failed {
				return
			}
			p := prefix + e.name
			if prefix != "/" {
				p = prefix + "/" + e.name
			}
			switch {
			case e.nilSub:
				failed = true
				return
			case e.nullSub:
				// the null id is not a tree of the model: the loader reports it as foreign; Walk must fail there
				failed = true
				want = append(want, verifC42Visit{parent: label, path: p, name: e.name, typ: "dir", err: true})
				return
			case e.dir != "":
				ok := load(e.dir)
				if mismatch != "" {
					return
				}
				want = append(want, verifC42Visit{parent: label, path: p, name: e.name, typ: "dir", err: !ok})
				if !ok {
					failed = true
					return
				}
				walk(e.dir, p)
			case e.symlink:
				want = append(want, verifC42Visit{parent: label, path: p, name: e.name, typ: "symlink"})
			default:
				want = append(want, verifC42Visit{parent: label, path: p, name: e.name, typ: "file"})
			}
		}
		if failed {
			return
		}
		if t.kind == "partial" {
			failed = true
			return
		}
		want = append(want, verifC42Visit{path: prefix, typ: "leave"})
	}
	completed := 0
	for _, root := range sh.roots {
		ok := load(root)
		if mismatch != "" {
			break
		}
		want = append(want, verifC42Visit{parent: root, path: "/", err: !ok})
		if !ok {
			failed = true
			break
		}
		walk(root, "/")
		if failed {
			break
		}
		completed++
	}
	if mismatch != "" {
		fail("walk-order", "%s", mismatch)
		return
	}
	// the null-subtree load is "foreign" by construction in walk mode: not a violation there
	if next != len(recs) {
		fail("walk-order", "Walk performed %d loads, the model %d: %v", len(recs), next, recs)
	}
	if failed != (st.err != nil) {
		fail("walk-error", "Walk returned %v, the model walk fails=%v (loads %v)", st.err, failed, recs)
	}
	if completed != st.calls {
		fail("walk-error", "%d roots walked completely, model %d", st.calls, completed)
	}
	if g, w := fmt.Sprint(st.visits), fmt.Sprint(want); g != w {
		fail("walk-visits", "visitor calls differ from the depth-first unfolding:\n got  %s\n want %s", g, w)
	}
	var ce *verifC42Err
	if st.err != nil && errors.As(st.err, &ce) && !ld.faulted[ce.label] && !strings.Contains(ce.why, "does not exist") {
		fail("walk-error", "Walk returned the error %q of a load that did not fail", st.err)
	}
}

// ---------------------------------------------------------------- shapes

func verifC42Shapes() []verifC42Shape {
	f := func(name string, blobs ...string) verifC42Ent { return verifC42Ent{name: name, blobs: blobs} }
	d := func(name, sub string) verifC42Ent { return verifC42Ent{name: name, dir: sub} }
	return []verifC42Shape{
		{name: "diamond", conns: 2, roots: []string{"R"}, trees: []verifC42Tree{
			{label: "E", ents: []verifC42Ent{f("e1", "b1", "b2"), f("e2", "b1")}},
			{label: "D", ents: []verifC42Ent{f("d1", "b3"), d("sub", "E")}},
			{label: "A", ents: []verifC42Ent{f("a1", "b1"), d("d", "D")}},
			{label: "B", ents: []verifC42Ent{f("b1", "b4"), d("d", "D")}},
			{label: "R", ents: []verifC42Ent{d("a", "A"), d("b", "B"), f("r")}},
		}},
		{name: "tworoots", conns: 2, roots: []string{"R1", "R2"}, trees: []verifC42Tree{
			{label: "L", ents: []verifC42Ent{f("l", "b1", "b2")}},
			{label: "S", ents: []verifC42Ent{d("l", "L"), f("s", "b3")}},
			{label: "A", ents: []verifC42Ent{f("a", "b4")}},
			{label: "B", ents: []verifC42Ent{f("b", "b4", "b5")}},
			{label: "R1", ents: []verifC42Ent{d("a", "A"), d("s", "S")}},
			{label: "R2", ents: []verifC42Ent{d("b", "B"), d("s", "S")}},
		}},
		{name: "chain3roots", conns: 1, roots: []string{"R", "C2", "R"}, trees: []verifC42Tree{
			{label: "C4", ents: []verifC42Ent{f("x", "b1")}},
			{label: "C3", ents: []verifC42Ent{d("x", "C4")}},
			{label: "C2", ents: []verifC42Ent{f("w", "b2"), d("x", "C3")}},
			{label: "C1", ents: []verifC42Ent{d("x", "C2")}},
			{label: "R", ents: []verifC42Ent{d("x", "C1")}},
		}},
		{name: "huge", conns: 2, roots: []string{"R"}, trees: []verifC42Tree{
			{label: "H2", kind: "huge", ents: []verifC42Ent{f("h2", "b4")}},
			{label: "X", ents: []verifC42Ent{d("h2", "H2"), f("x", "b1")}},
			{label: "A", ents: []verifC42Ent{f("a", "b2")}},
			{label: "H", kind: "huge", ents: []verifC42Ent{d("a", "A"), f("h", "b3"), d("x", "X")}},
			{label: "R", ents: []verifC42Ent{d("a", "A"), d("h", "H"), f("r", "b2")}},
		}},
		func() verifC42Shape {
			// more huge trees than the huge-tree queue holds (10) plus the one being loaded: the traversal has
			// to wait for the dedicated worker; 14 huge sub-directories and one ordinary one
			sh := verifC42Shape{name: "manyhuge", bound: 1, conns: 1, roots: []string{"R"}}
			var rents []verifC42Ent
			for i := 1; i <= 14; i++ {
				lab := fmt.Sprintf("H%02d", i)
				sh.trees = append(sh.trees, verifC42Tree{label: lab, kind: "huge", ents: []verifC42Ent{f("f", fmt.Sprintf("b%d", 10+i))}})
				rents = append(rents, d(fmt.Sprintf("h%02d", i), lab))
			}
			sh.trees = append(sh.trees, verifC42Tree{label: "N", ents: []verifC42Ent{f("n", "b1")}})
			rents = append(rents, d("n", "N"))
			sh.trees = append(sh.trees, verifC42Tree{label: "R", ents: rents})
			return sh
		}(),
		// two huge trees queued for the dedicated worker at the same time, the first with more
		// sub-directories than the second (anything the worker keeps across two trees would show)
		{name: "hugepair", conns: 1, roots: []string{"R"}, trees: []verifC42Tree{
			{label: "A", ents: []verifC42Ent{f("a", "b1")}},
			{label: "B", ents: []verifC42Ent{f("b", "b2")}},
			{label: "C", ents: []verifC42Ent{f("c", "b3")}},
			{label: "D", ents: []verifC42Ent{f("d", "b4")}},
			{label: "E", ents: []verifC42Ent{f("e", "b5")}},
			{label: "H1", kind: "huge", ents: []verifC42Ent{d("a", "A"), d("b", "B"), d("c", "C"), f("f", "b6")}},
			{label: "H2", kind: "huge", ents: []verifC42Ent{d("d", "D"), d("e", "E")}},
			{label: "R", ents: []verifC42Ent{d("h1", "H1"), d("h2", "H2")}},
		}},
		{name: "hugeroots", conns: 1, roots: []string{"H1", "H2"}, trees: []verifC42Tree{
			{label: "S", ents: []verifC42Ent{f("s", "b1")}},
			{label: "H1", kind: "huge", ents: []verifC42Ent{f("f", "b2"), d("s", "S")}},
			{label: "H2", kind: "huge", ents: []verifC42Ent{f("g", "b3"), d("s", "S")}},
		}},
		{name: "missing", conns: 2, roots: []string{"R"}, trees: []verifC42Tree{
			{label: "M", kind: "missing"},
			{label: "K", ents: []verifC42Ent{f("k", "b1")}},
			{label: "A", ents: []verifC42Ent{d("k", "K")}},
			{label: "R", ents: []verifC42Ent{d("a", "A"), d("m", "M"), f("r", "b2")}},
		}},
		{name: "garbage", conns: 2, roots: []string{"R"}, trees: []verifC42Tree{
			{label: "G", kind: "garbage"},
			{label: "K", ents: []verifC42Ent{f("k", "b1")}},
			{label: "A", ents: []verifC42Ent{d("k", "K")}},
			{label: "R", ents: []verifC42Ent{d("a", "A"), d("g", "G"), f("r", "b2")}},
		}},
		{name: "partial", conns: 2, roots: []string{"R"}, trees: []verifC42Tree{
			{label: "K2", ents: []verifC42Ent{f("k2", "b3")}},
			{label: "K", ents: []verifC42Ent{f("k", "b1")}},
			{label: "P", kind: "partial", ents: []verifC42Ent{f("f", "b4"), d("k2", "K2")}},
			{label: "A", ents: []verifC42Ent{d("k", "K")}},
			{label: "R", ents: []verifC42Ent{d("a", "A"), d("p", "P"), f("r", "b2")}},
		}},
		{name: "allbad", conns: 2, roots: []string{"R"}, trees: []verifC42Tree{
			{label: "M", kind: "missing"},
			{label: "G", kind: "garbage"},
			{label: "K2", ents: []verifC42Ent{f("k2", "b3")}},
			{label: "K", ents: []verifC42Ent{f("k", "b1")}},
			{label: "P", kind: "partial", ents: []verifC42Ent{d("k2", "K2")}},
			{label: "A", ents: []verifC42Ent{d("k", "K"), d("m", "M")}},
			{label: "R", ents: []verifC42Ent{d("a", "A"), d("g", "G"), d("m", "M"), d("p", "P")}},
		}},
		{name: "wide", conns: 2, roots: []string{"R"}, trees: []verifC42Tree{
			{label: "L1", ents: []verifC42Ent{f("f", "b1")}},
			{label: "L2", ents: []verifC42Ent{f("f", "b1", "b2")}},
			{label: "L3", ents: []verifC42Ent{f("f", "b3", "b3", "b3")}},
			{label: "L4", ents: []verifC42Ent{f("f")}},
			{label: "L5", ents: nil},
			{label: "R", ents: []verifC42Ent{d("1", "L1"), d("2", "L2"), d("3", "L3"), d("4", "L4"), d("5", "L5"), d("6", "L1")}},
		}},
		{name: "lattice", conns: 2, roots: []string{"R"}, trees: []verifC42Tree{
			{label: "D", ents: []verifC42Ent{f("d", "b1")}},
			{label: "E", ents: []verifC42Ent{f("e", "b1", "b2")}},
			{label: "A", ents: []verifC42Ent{d("d", "D"), d("e", "E")}},
			{label: "B", ents: []verifC42Ent{d("d", "D"), d("e", "E"), f("f", "b3")}},
			{label: "C", ents: []verifC42Ent{d("e", "E"), f("f", "b4")}},
			{label: "R", ents: []verifC42Ent{d("a", "A"), d("b", "B"), d("c", "C")}},
		}},
		{name: "nilnull", conns: 1, roots: []string{"R"}, trees: []verifC42Tree{
			{label: "A", ents: []verifC42Ent{f("a", "b1"), {name: "l", symlink: true}}},
			{label: "R", ents: []verifC42Ent{d("a", "A"), f("f", "b2"), {name: "n1", nullSub: true}, {name: "n2", nilSub: true}, d("z", "A")}},
		}},
	}
}

// TestVerifProbe_C42 runs in a child process (see verifC42Probe): the real, ungated checker over the
// repository fixture of one shape.  A panic in one of StreamTrees' worker goroutines cannot be recovered,
// so the parent learns about it from the child's output instead of dying itself.
func TestVerifProbe_C42(t *testing.T) {
	want := os.Getenv("VERIF_C42_PROBE")
	if want == "" {
		t.Skip("helper of TestVerif_C42")
	}
	shapes := verifC42Shapes()
	for i := range shapes {
		if shapes[i].name != want {
			continue
		}
		m := verifC42Build(&shapes[i])
		repo, _, err := oracle.Open(context.Background(), verifC42Fixture(t, m), oracle.Password)
		if err != nil {
			t.Fatal(err)
		}
		res := oracle.Check(context.Background(), repo, false)
		fmt.Printf("C42PROBE-DONE %d errors: %q\n", len(res.Errors), res.Errors)
	}
}

// verifC42Probe reports whether the real checker survives the given shape ("" = it does).
func verifC42Probe(shape string) string {
	cmd := exec.Command(os.Args[0], "-test.run", "^TestVerifProbe_C42$", "-test.count", "1", "-test.timeout", "120s")
	for _, kv := range os.Environ() {
		if !strings.HasPrefix(kv, "VERIF_") {
			cmd.Env = append(cmd.Env, kv)
		}
	}
	cmd.Env = append(cmd.Env, "VERIF_C42_PROBE="+shape)
	out, err := cmd.CombinedOutput()
	if err == nil && strings.Contains(string(out), "C42PROBE-DONE") {
		return ""
	}
	txt := string(out)
	if i := strings.Index(txt, "panic:"); i >= 0 {
		txt = txt[i:]
	}
	if len(txt) > 1800 {
		txt = txt[:1800]
	}
	return fmt.Sprintf("child exit: %v\n%s", err, txt)
}

func TestVerif_C42(t *testing.T) {
	r := vh.Start(t, "C42")
	defer r.Finish()
	r.Rule("GATE at the Loader: for every forged tree DAG (13 shapes, <= 8 trees), mode (find, find2, stream, check, walk) and connection count, ALL completion orders of the concurrently outstanding LoadBlob calls and ALL ok/err answer assignments (no deviation bound: the search is complete; FIFO policy only fixes the enumeration order; only the check mode of the quick tier is limited to 2 deviations from oldest-first/ok). non-trivial = an execution in which at least two loads were outstanding at the same scheduler step or a load was answered with an injected error. states = distinct complete schedules.")
	r.Assume("the Loader is the only interaction with the repository; LookupBlobSize is pure", "goroutine interleaving between two loader events is the Go runtime's choice (GOMAXPROCS=1); filterTrees' select never has two ready cases at quiescence because one load is released per scheduler step")
	// Connections() decides the size of the worker pool: conns + GOMAXPROCS(=1) normal workers + 1 huge-tree worker.
	connsList := vh.Pick(r, []uint{0}, []uint{1, 2, 3, 5}) // 0 = the shape's own value (1 or 2)
	shapes := verifC42Shapes()
	bases := map[string]gatebe.State{}
	oracle.LowKDF()
	// The real checker on a tree that becomes undecodable after some valid entries: a panic there would
	// kill this process, so it is probed in a child process first (every shard needs the answer).
	checkerDies := verifC42Probe("partial")
	if checkerDies != "" {
		if r.Case("probe|check|partial") {
			r.Eval(1)
			r.Violation("probe|check|partial", "C42|check-panic|half-decodable-tree",
				"the checker's tree traversal (checker.Structure = StreamTrees with the checker's callbacks, as `restic check` runs it) dies with an unrecovered panic on a repository that contains a tree whose JSON becomes undecodable after some valid entries (shape \"partial\", tree P):\n"+checkerDies,
				map[string]any{"shape": "partial", "tree_P": `{"nodes":[<file f>,<dir k2>,{"name":17,"type":"file"}]}`})
		}
		r.Cap("check mode is skipped for the shapes with a half-decodable tree (partial, allbad): the checker panics there (reported as a violation)")
	}
	for i := range shapes {
		for _, conns := range connsList {
			sh := shapes[i]
			if conns != 0 {
				sh.conns = conns
			}
			m := verifC42Build(&sh)
			modes := []string{"find", "stream"}
			hasPartial := false
			for _, tr := range sh.trees {
				hasPartial = hasPartial || tr.kind == "partial"
			}
			if !(hasPartial && checkerDies != "") {
				modes = append(modes, "check")
			}
			if len(sh.roots) > 1 {
				modes = append(modes, "find2")
			}
			if conns == connsList[0] {
				modes = append(modes, "walk") // sequential: independent of the pool size
			}
			for _, mode := range modes {
				name := fmt.Sprintf("%s|%s|c%d", mode, sh.name, sh.conns)
				var base gatebe.State
				if mode == "check" {
					if bases[sh.name] == nil {
						bases[sh.name] = verifC42Fixture(t, m)
					}
					base = bases[sh.name]
				}
				sc, check := verifC42Scenario(r, mode, m, name, base)
				bound := -1
				if sh.bound > 0 {
					bound = sh.bound
				} else if mode == "check" {
					// every execution opens the repository (~20 ms): deviation bound 2 in the quick tier, complete in thorough
					bound = vh.Pick(r, 2, -1)
				}
				st := vx.Explore(r, t, name, sc, xplore.Options{Policy: xplore.FIFO, Bound: bound, MaxSteps: 300}, check)
				r.Count("execs "+name, st.Execs)
			}
		}
	}
	r.Extra("deviation_bound", vh.Pick(r, "none (complete); check mode: 2", "none (complete)"))
	r.Extra("shapes", fmt.Sprint(len(shapes)))
}

// ---------- free-running -race pass ----------

// verifC42FreeLoader serves the model's trees without any gate.
type verifC42FreeLoader struct{ m *verifC42Model }

func (l *verifC42FreeLoader) Connections() uint { return l.m.sh.conns }

func (l *verifC42FreeLoader) LookupBlobSize(h restic.BlobHandle) (uint, bool) {
	lab, ok := l.m.label[h.ID]
	if !ok || h.Type != restic.TreeBlob || l.m.tree[lab].kind == "missing" {
		return 0, false
	}
	if l.m.tree[lab].kind == "huge" {
		return 50*1024*1024 + 1, true
	}
	return uint(len(l.m.raw[lab])), true
}

func (l *verifC42FreeLoader) LoadBlob(_ context.Context, h restic.BlobHandle, _ []byte) ([]byte, error) {
	lab, ok := l.m.label[h.ID]
	if !ok || h.Type != restic.TreeBlob || l.m.tree[lab].kind == "missing" {
		return nil, &verifC42Err{label: h.String(), why: "blob not found"}
	}
	return append([]byte(nil), l.m.raw[lab]...), nil
}

// TestVerifRace_C42 runs the same bodies (FindUsedBlobs, StreamTrees) free for the race detector:
// the gated exploration orders loader events only, accesses of the pool goroutines between two
// loader events (e.g. a slice handed from a worker to filterTrees) are the race detector's business.
// The used-blob set is compared with reachability as well.
func TestVerifRace_C42(t *testing.T) {
	r := vh.Start(t, "C42")
	defer r.Finish()
	shapes := verifC42Shapes()
	for i := range shapes {
		sh := shapes[i]
		clean := true
		for _, tr := range sh.trees {
			if tr.kind != "" && tr.kind != "huge" {
				clean = false
			}
		}
		if !clean {
			continue
		}
		for _, conns := range []uint{1, 3} {
			sh.conns = conns
			m := verifC42Build(&sh)
			wantTrees, wantBlobs := m.reach(sh.roots, map[string]bool{}, false)
			for round := 0; round < 10; round++ {
				ld := &verifC42FreeLoader{m: m}
				blobs := restic.NewBlobSet()
				err := data.FindUsedBlobs(context.Background(), ld, m.rootIDs(sh.roots), blobs, &verifC42Counter{})
				got := map[string]bool{}
				for h := range blobs {
					if h.Type == restic.TreeBlob {
						got["T:"+m.lab(h.ID)] = true
					} else {
						got["D:"+h.ID.String()] = true
					}
				}
				want := map[string]bool{}
				for l := range wantTrees {
					want["T:"+l] = true
				}
				for b := range wantBlobs {
					want["D:"+verifC42DataID(b).String()] = true
				}
				if err != nil || verifC42Keys(got) != verifC42Keys(want) {
					r.Violation("", "C42|free-running|find|"+sh.name, fmt.Sprintf("free-running pass, shape %s conns=%d: FindUsedBlobs err=%v\n got  %s\n want %s", sh.name, conns, err, verifC42Keys(got), verifC42Keys(want)), nil)
				}
				var mu sync.Mutex
				seen := restic.NewBlobSet()
				streamed := map[string]bool{}
				err = data.StreamTrees(context.Background(), ld, m.rootIDs(sh.roots), &verifC42Counter{}, func(id restic.ID) bool {
					h := restic.BlobHandle{ID: id, Type: restic.TreeBlob}
					was := seen.Has(h)
					seen.Insert(h)
					return was
				}, func(id restic.ID, err error, nodes data.TreeNodeIterator) error {
					if err == nil {
						for range nodes {
						}
					}
					mu.Lock()
					streamed["T:"+m.lab(id)] = true
					mu.Unlock()
					return nil
				})
				wantT := map[string]bool{}
				for l := range wantTrees {
					wantT["T:"+l] = true
				}
				if err != nil || verifC42Keys(streamed) != verifC42Keys(wantT) {
					r.Violation("", "C42|free-running|stream|"+sh.name, fmt.Sprintf("free-running pass, shape %s conns=%d: StreamTrees err=%v\n got  %s\n want %s", sh.name, conns, err, verifC42Keys(streamed), verifC42Keys(wantT)), nil)
				}
				r.Eval(2)
			}
		}
	}
}

package data_test

// C22: retention policies keep exactly the documented snapshots.
//
// Space.  Timestamp alphabet of 18 instants (all UTC): pairs straddling an
// hour, a day, a month and a year boundary, the two ISO weeks that split a
// year (2024-12-29/30 and 2021-01-03/04), two equal instants, one instant
// exactly one day before another one (boundary of --keep-within 1d; this
// instant is an addition to the DESIGN alphabet) and one instant in the
// future (2099).  Snapshot lists = all subsets of the alphabet with <= 5
// (quick) / <= 6 (thorough) elements, handed to ApplyPolicy in ascending and
// in descending order (singles) resp. ascending order (pairs).  Tag sets from
// {none,{a},{a,b}}: all assignments for lists of <= 3 snapshots, two fixed
// patterns for longer lists.  Policies: the empty policy, every single option
// (6 counters x {1,2,3,unlimited}, 6 durations x {1h,1d,1m,1m1h,1y,2y3m}, keep-tag
// x {[a]; [a],[b]; [a,b]; ['']; [a,b],['']}) and every pair of options (quick:
// on lists of <= 4).
//
// Oracle.  An independent re-implementation of the documented rules
// (doc/060_forget.rst + the property statement) that yields two sets per
// policy, must and may, the policy being the union over its options:
//   keep-last N      the N newest (a tie across the cut: any of the tied);
//   keep-<period> N  the newest snapshot of each of the N most recent periods
//                    that contain snapshots (ties: any one of the tied newest),
//                    plus the oldest snapshot while a count remains (must for
//                    a finite N with fewer periods than N; may for unlimited);
//   keep-within D    every snapshot newer than (newest non-future snapshot - D)
//                    (calendar subtraction; when the day of month does not
//                    exist in the target month both readings are allowed);
//   keep-within-<period> D  the newest snapshot of each period among the
//                    snapshots inside that window (must), the oldest snapshot
//                    of the list when inside the window and any future
//                    snapshot (may, see the notes in the documentation);
//   keep-tag         exactly the snapshots carrying all tags of one list,
//                    '' = untagged.
// Checked: keep and remove partition the input, reasons run parallel to keep
// and every kept snapshot has at least one reason, must <= keep <= may, for a
// single period option at most one kept snapshot per period (plus the oldest
// one), keep-last keeps exactly min(N, n), and monotonicity: raising one
// count / one duration / adding a tag list never removes a kept snapshot
// (checked between every two policies of the enumerated set that differ in
// exactly that way).
//
// Periods are computed independently of the code under test: hours and days
// from the Unix time, weeks as Monday-based 7-day blocks of the day number
// (not via ISOWeek), months and years from the civil date.  All timestamps
// are UTC; bucketing of snapshots in other zones is not documented and is
// outside the oracle.  Lists whose snapshots are all in the future have no
// "newest non-future snapshot": duration options are then undecided (may =
// everything).

import (
	"fmt"
	"math/bits"
	"sort"
	"strings"
	"testing"
	"time"

	"github.com/restic/restic/internal/data"
	"github.com/restic/restic/internal/verifshim/vh"
)

var verifC22Instants = []time.Time{
	time.Date(2021, 1, 3, 12, 0, 0, 0, time.UTC),    // 0  Sun, ISO 2020-W53
	time.Date(2021, 1, 4, 12, 0, 0, 0, time.UTC),    // 1  Mon, ISO 2021-W01
	time.Date(2023, 12, 31, 23, 30, 0, 0, time.UTC), // 2  year/month/week straddle
	time.Date(2024, 1, 1, 0, 30, 0, 0, time.UTC),    // 3
	time.Date(2024, 1, 31, 23, 0, 0, 0, time.UTC),   // 4  month straddle (Wed/Thu)
	time.Date(2024, 2, 1, 1, 0, 0, 0, time.UTC),     // 5
	time.Date(2024, 3, 10, 10, 59, 59, 0, time.UTC), // 6  hour straddle
	time.Date(2024, 3, 10, 11, 0, 0, 0, time.UTC),   // 7
	time.Date(2024, 3, 10, 11, 0, 0, 0, time.UTC),   // 8  equal to 7
	time.Date(2024, 3, 12, 0, 0, 0, 0, time.UTC),    // 9  exactly 1d before 11
	time.Date(2024, 3, 12, 23, 59, 59, 0, time.UTC), // 10 day straddle (Tue/Wed)
	time.Date(2024, 3, 13, 0, 0, 0, 0, time.UTC),    // 11
	time.Date(2024, 5, 1, 12, 0, 0, 0, time.UTC),    // 12 inside "1m1h before 14" only if the month is subtracted before the hour
	time.Date(2024, 5, 31, 12, 0, 0, 0, time.UTC),   // 13
	time.Date(2024, 6, 1, 0, 30, 0, 0, time.UTC),    // 14 half an hour into a month that follows a 31-day month that follows a 30-day month
	time.Date(2024, 12, 29, 8, 0, 0, 0, time.UTC),   // 15 Sun, ISO 2024-W52
	time.Date(2024, 12, 30, 8, 0, 0, 0, time.UTC),   // 16 Mon, ISO 2025-W01
	time.Date(2099, 6, 15, 12, 0, 0, 0, time.UTC),   // 17 future
}

func verifC22Future(t time.Time) bool { return t.Year() >= 2090 }

const (
	verifC22Last = iota
	verifC22Hourly
	verifC22Daily
	verifC22Weekly
	verifC22Monthly
	verifC22Yearly
	verifC22Within
	verifC22WithinHourly
	verifC22WithinDaily
	verifC22WithinWeekly
	verifC22WithinMonthly
	verifC22WithinYearly
	verifC22Tags
	verifC22NOpts
)

var verifC22OptNames = [verifC22NOpts]string{"last", "hourly", "daily", "weekly", "monthly", "yearly",
	"within", "within-hourly", "within-daily", "within-weekly", "within-monthly", "within-yearly", "tag"}

var verifC22Counts = []int{0, 1, 2, 3, -1}
var verifC22Durs = []data.Duration{{}, {Hours: 1}, {Days: 1}, {Months: 1}, {Months: 1, Hours: 1}, {Years: 1}, {Years: 2, Months: 3}}
var verifC22TagVals = [][][]string{nil, {{"a"}}, {{"a"}, {"b"}}, {{"a", "b"}}, {{""}}, {{"a", "b"}, {""}}}

// successor value indices ("raise a count / a duration / add a tag list")
func verifC22Succ(opt, v int) []int {
	switch {
	case opt <= verifC22Yearly:
		if v+1 < len(verifC22Counts) {
			return []int{v + 1}
		}
	case opt <= verifC22WithinYearly:
		if v+1 < len(verifC22Durs) {
			return []int{v + 1}
		}
	default:
		switch v {
		case 0:
			return []int{1, 2, 3, 4, 5}
		case 1:
			return []int{2}
		case 3, 4:
			return []int{5}
		}
	}
	return nil
}

func verifC22NVals(opt int) int {
	switch {
	case opt <= verifC22Yearly:
		return len(verifC22Counts)
	case opt <= verifC22WithinYearly:
		return len(verifC22Durs)
	}
	return len(verifC22TagVals)
}

type verifC22Vec [verifC22NOpts]uint8

func (v verifC22Vec) code() uint64 {
	var c uint64
	for _, x := range v {
		c = c*8 + uint64(x)
	}
	return c
}

func (v verifC22Vec) String() string {
	var parts []string
	for o, x := range v {
		if x == 0 {
			continue
		}
		switch {
		case o <= verifC22Yearly:
			parts = append(parts, fmt.Sprintf("%s=%d", verifC22OptNames[o], verifC22Counts[x]))
		case o <= verifC22WithinYearly:
			parts = append(parts, fmt.Sprintf("%s=%s", verifC22OptNames[o], verifC22Durs[x]))
		default:
			parts = append(parts, fmt.Sprintf("tag=%q", verifC22TagVals[x]))
		}
	}
	if len(parts) == 0 {
		return "empty"
	}
	return strings.Join(parts, ",")
}

func (v verifC22Vec) policy() data.ExpirePolicy {
	p := data.ExpirePolicy{
		Last: verifC22Counts[v[verifC22Last]], Hourly: verifC22Counts[v[verifC22Hourly]], Daily: verifC22Counts[v[verifC22Daily]],
		Weekly: verifC22Counts[v[verifC22Weekly]], Monthly: verifC22Counts[v[verifC22Monthly]], Yearly: verifC22Counts[v[verifC22Yearly]],
		Within: verifC22Durs[v[verifC22Within]], WithinHourly: verifC22Durs[v[verifC22WithinHourly]], WithinDaily: verifC22Durs[v[verifC22WithinDaily]],
		WithinWeekly: verifC22Durs[v[verifC22WithinWeekly]], WithinMonthly: verifC22Durs[v[verifC22WithinMonthly]], WithinYearly: verifC22Durs[v[verifC22WithinYearly]],
	}
	for _, l := range verifC22TagVals[v[verifC22Tags]] {
		p.Tags = append(p.Tags, append(data.TagList(nil), l...))
	}
	return p
}

func (v verifC22Vec) active() (n int, only int) {
	only = -1
	for o, x := range v {
		if x != 0 {
			n++
			only = o
		}
	}
	return
}

// ------------------------------------------------------------- the model

type verifC22Snap struct {
	T    time.Time
	Tags []string
}

// verifC22Period: period number of t for the period kind of option opt
// (hourly..yearly / within-hourly..within-yearly).
func verifC22Period(opt int, t time.Time) int64 {
	if opt >= verifC22WithinHourly {
		opt -= verifC22WithinHourly - verifC22Hourly
	}
	u := t.Unix() // all instants are UTC and after 1970
	y, m, _ := t.Date()
	switch opt {
	case verifC22Hourly:
		return u / 3600
	case verifC22Daily:
		return u / 86400
	case verifC22Weekly:
		return (u/86400 + 3) / 7 // 1970-01-01 was a Thursday; weeks start on Monday
	case verifC22Monthly:
		return int64(y)*12 + int64(m)
	case verifC22Yearly:
		return int64(y)
	}
	panic("verifC22Period: bad option")
}

func verifC22DaysIn(y, m int) int {
	switch m {
	case 4, 6, 9, 11:
		return 30
	case 2:
		if y%4 == 0 && (y%100 != 0 || y%400 == 0) {
			return 29
		}
		return 28
	}
	return 31
}

// verifC22Threshold returns ref - d in calendar arithmetic.  When the day of
// the month does not exist in the target month, lo/hi are the two readings
// (clamp to the end of the month / roll over into the next month).
func verifC22Threshold(ref time.Time, d data.Duration) (lo, hi time.Time) {
	y, m, day := ref.Date()
	h, mi, s := ref.Clock()
	total := y*12 + int(m) - 1 - (d.Years*12 + d.Months)
	ny, nm := total/12, total%12+1
	dim := verifC22DaysIn(ny, nm)
	cl := day
	if cl > dim {
		cl = dim
	}
	a := time.Date(ny, time.Month(nm), cl, h, mi, s, ref.Nanosecond(), time.UTC)
	b := a.Add(time.Duration(day-cl) * 24 * time.Hour)
	sub := time.Duration(d.Days*24+d.Hours) * time.Hour
	return a.Add(-sub), b.Add(-sub)
}

// verifC22Model computes must/may as bit sets over list positions: the union
// of the per-option sets (the documentation: "the results are ORed").  memo
// caches the per-option results for one list.
func verifC22Model(list []verifC22Snap, v verifC22Vec, memo map[[2]int][2]uint32) (must, may uint32) {
	for opt := 0; opt < verifC22NOpts; opt++ {
		if v[opt] == 0 {
			continue
		}
		k := [2]int{opt, int(v[opt])}
		mm, ok := memo[k]
		if !ok {
			var single verifC22Vec
			single[opt] = v[opt]
			a, b := verifC22ModelOne(list, single)
			mm = [2]uint32{a, b}
			memo[k] = mm
		}
		must |= mm[0]
		may |= mm[1]
	}
	return must, may
}

func verifC22ModelOne(list []verifC22Snap, v verifC22Vec) (must, may uint32) {
	n := len(list)
	if n == 0 {
		return 0, 0
	}
	all := uint32(1)<<uint(n) - 1
	// oldest snapshots (ties possible), future ones, reference instant
	var oldest, future uint32
	minT := list[0].T
	for _, s := range list {
		if s.T.Before(minT) {
			minT = s.T
		}
	}
	var ref time.Time
	haveRef := false
	for i, s := range list {
		if s.T.Equal(minT) {
			oldest |= 1 << uint(i)
		}
		if verifC22Future(s.T) {
			future |= 1 << uint(i)
		} else if !haveRef || s.T.After(ref) {
			ref, haveRef = s.T, true
		}
	}
	addOldest := func(asMust bool) {
		may |= oldest
		if asMust && bits.OnesCount32(oldest) == 1 {
			must |= oldest
		}
	}
	// newestPerPeriod: for the members in `in`, grouped by period, returns the
	// periods newest first, each with the set of its newest members.
	type per struct {
		key    int64
		newest uint32
		maxT   time.Time
	}
	periods := func(opt int, in uint32) []per {
		m := map[int64]*per{}
		for i, s := range list {
			if in&(1<<uint(i)) == 0 {
				continue
			}
			k := verifC22Period(opt, s.T)
			p := m[k]
			if p == nil {
				p = &per{key: k, maxT: s.T}
				m[k] = p
			}
			if s.T.After(p.maxT) {
				p.maxT, p.newest = s.T, 0
			}
			if s.T.Equal(p.maxT) {
				p.newest |= 1 << uint(i)
			}
		}
		var l []per
		for _, p := range m {
			l = append(l, *p)
		}
		sort.Slice(l, func(i, j int) bool { return l[i].maxT.After(l[j].maxT) })
		return l
	}

	for opt := 0; opt < verifC22NOpts; opt++ {
		x := int(v[opt])
		if x == 0 {
			continue
		}
		switch {
		case opt == verifC22Last:
			N := verifC22Counts[x]
			if N == -1 || N >= n {
				must |= all
				may |= all
				break
			}
			ts := make([]time.Time, n)
			for i, s := range list {
				ts[i] = s.T
			}
			sort.Slice(ts, func(i, j int) bool { return ts[i].After(ts[j]) })
			cut := ts[N-1]
			var ge, gt uint32
			for i, s := range list {
				if !s.T.Before(cut) {
					ge |= 1 << uint(i)
				}
				if s.T.After(cut) {
					gt |= 1 << uint(i)
				}
			}
			may |= ge
			if bits.OnesCount32(ge) == N {
				must |= ge
			} else {
				must |= gt
			}
		case opt <= verifC22Yearly:
			N := verifC22Counts[x]
			ps := periods(opt, all)
			q := len(ps)
			if N != -1 && N < q {
				q = N
			}
			for _, p := range ps[:q] {
				may |= p.newest
				if bits.OnesCount32(p.newest) == 1 {
					must |= p.newest
				}
			}
			if N == -1 {
				addOldest(false)
			} else if len(ps) < N {
				addOldest(true)
			}
		case opt <= verifC22WithinYearly:
			d := verifC22Durs[x]
			may |= future // "these snapshots will hence not be removed"
			if !haveRef {
				may |= all // no newest non-future snapshot: undecided
				break
			}
			lo, hi := verifC22Threshold(ref, d)
			var inLo, inHi uint32
			for i, s := range list {
				if s.T.After(lo) {
					inLo |= 1 << uint(i)
				}
				if s.T.After(hi) {
					inHi |= 1 << uint(i)
				}
			}
			if opt == verifC22Within {
				must |= inHi
				may |= inLo
				break
			}
			for _, p := range periods(opt, inLo) {
				may |= p.newest
				if bits.OnesCount32(p.newest) == 1 && p.newest&inHi != 0 {
					must |= p.newest
				}
			}
			may |= oldest & inLo
		default:
			for i, s := range list {
				for _, l := range verifC22TagVals[x] {
					sat := true
					if len(l) == 1 && l[0] == "" {
						sat = len(s.Tags) == 0
					} else {
						for _, tg := range l {
							found := false
							for _, have := range s.Tags {
								if have == tg {
									found = true
								}
							}
							if !found {
								sat = false
							}
						}
					}
					if sat {
						must |= 1 << uint(i)
						may |= 1 << uint(i)
					}
				}
			}
		}
	}
	return must, may
}

// ------------------------------------------------------------- the harness

type verifC22PolicySet struct {
	vecs   []verifC22Vec
	pols   []data.ExpirePolicy
	pair   []bool
	edges  [][2]int // (from, to): to = from with one count/duration raised or one tag list added
	byCode map[uint64]int
}

func verifC22Policies() *verifC22PolicySet {
	ps := &verifC22PolicySet{byCode: map[uint64]int{}}
	add := func(v verifC22Vec, pair bool) {
		if _, ok := ps.byCode[v.code()]; ok {
			return
		}
		ps.byCode[v.code()] = len(ps.vecs)
		ps.vecs = append(ps.vecs, v)
		ps.pols = append(ps.pols, v.policy())
		ps.pair = append(ps.pair, pair)
	}
	add(verifC22Vec{}, false)
	for o := 0; o < verifC22NOpts; o++ {
		for x := 1; x < verifC22NVals(o); x++ {
			var v verifC22Vec
			v[o] = uint8(x)
			add(v, false)
		}
	}
	for o1 := 0; o1 < verifC22NOpts; o1++ {
		for o2 := o1 + 1; o2 < verifC22NOpts; o2++ {
			for x1 := 1; x1 < verifC22NVals(o1); x1++ {
				for x2 := 1; x2 < verifC22NVals(o2); x2++ {
					var v verifC22Vec
					v[o1], v[o2] = uint8(x1), uint8(x2)
					add(v, true)
				}
			}
		}
	}
	for from, v := range ps.vecs {
		for o := 0; o < verifC22NOpts; o++ {
			for _, nx := range verifC22Succ(o, int(v[o])) {
				w := v
				w[o] = uint8(nx)
				if to, ok := ps.byCode[w.code()]; ok {
					ps.edges = append(ps.edges, [2]int{from, to})
				}
			}
		}
	}
	return ps
}

func TestVerif_C22(t *testing.T) {
	r := vh.Start(t, "C22")
	defer r.Finish()
	maxLen := vh.Pick(r, 5, 6)
	maxPairLen := vh.Pick(r, 4, 6)
	r.Rule(fmt.Sprintf("every subset of <= %d of 15 boundary instants x tag assignments x input orders x (empty policy, every single option value, every pair of option values on lists of <= %d) through ApplyPolicy; "+
		"non-trivial = non-empty policy on >= 2 snapshots that keeps some and removes some; monotonicity over every raise-one-option edge inside the policy set", maxLen, maxPairLen))
	r.Assume("all snapshot timestamps are UTC (bucketing by local fields of other zones is undocumented and not in the oracle)",
		"the future instant is 2099-06-15, all others are before 2025, so time.Now() inside findLatestTimestamp cannot change the classification",
		"--keep-within-<period>: future snapshots and the oldest in-window snapshot are 'may' (documentation notes), all-future lists are undecided for duration options")

	ps := verifC22Policies()
	r.Extra("policies", fmt.Sprint(len(ps.vecs)))
	r.Extra("monotonicity_edges", fmt.Sprint(len(ps.edges)))
	tagSets := [][]string{nil, {"a"}, {"a", "b"}}
	nI := len(verifC22Instants)

	seenOutcome := map[string]bool{}
	outcome := func(s string) {
		if !seenOutcome[s] {
			seenOutcome[s] = true
			r.Outcome(s)
		}
	}
	var keptOutcome [8][8]bool
	keepMasks := make([]uint32, len(ps.vecs))
	evaluated := make([]bool, len(ps.vecs))

	for mask := 0; mask < 1<<uint(nI); mask++ {
		n := bits.OnesCount(uint(mask))
		if n > maxLen {
			continue
		}
		ck := fmt.Sprintf("list|%04x", mask)
		if !r.Case(ck) {
			continue
		}
		if r.Expired() {
			break
		}
		var idx []int
		for i := 0; i < nI; i++ {
			if mask&(1<<uint(i)) != 0 {
				idx = append(idx, i)
			}
		}
		// tag assignments
		var assigns [][]int
		if n <= 3 {
			total := 1
			for i := 0; i < n; i++ {
				total *= 3
			}
			for a := 0; a < total; a++ {
				as := make([]int, n)
				x := a
				for i := range as {
					as[i] = x % 3
					x /= 3
				}
				assigns = append(assigns, as)
			}
		} else {
			a1, a2 := make([]int, n), make([]int, n)
			for i, ii := range idx {
				a1[i] = ii % 3
				a2[i] = (ii/3 + i) % 3
			}
			assigns = [][]int{a1, a2}
		}
		for ai, as := range assigns {
			list := make([]verifC22Snap, n)
			sns := make([]*data.Snapshot, n)
			pos := map[*data.Snapshot]int{}
			for i, ii := range idx {
				list[i] = verifC22Snap{T: verifC22Instants[ii], Tags: tagSets[as[i]]}
				sns[i] = &data.Snapshot{Time: verifC22Instants[ii], Hostname: "h", Username: fmt.Sprintf("i%d", ii), Paths: []string{"/p"}}
				if len(tagSets[as[i]]) > 0 {
					sns[i].Tags = append([]string{}, tagSets[as[i]]...)
				}
				pos[sns[i]] = i
			}
			memo := map[[2]int][2]uint32{}
			listName := fmt.Sprintf("%v", idx)
			tagName := fmt.Sprintf("%v", as)
			for order := 0; order < 2; order++ {
				for pi := range evaluated {
					evaluated[pi] = false
				}
				for pi, vec := range ps.vecs {
					if ps.pair[pi] && (n > maxPairLen || order == 1) {
						continue
					}
					if ai > 0 && vec[verifC22Tags] == 0 {
						continue // tags are irrelevant without keep-tag: first assignment only
					}
					in := make(data.Snapshots, n)
					for i := range sns {
						if order == 0 {
							in[i] = sns[i]
						} else {
							in[i] = sns[n-1-i]
						}
					}
					detail := func() any {
						var ts []string
						for i, s := range list {
							ts = append(ts, fmt.Sprintf("%s tags=%v", s.T.Format(time.RFC3339), list[i].Tags))
						}
						return map[string]any{"policy": vec.String(), "snapshots": ts, "input_order": []string{"ascending", "descending"}[order]}
					}
					vkey := func(kind string) string {
						return fmt.Sprintf("C22|%s|p=%s|list=%s|tags=%s", kind, vec.String(), listName, tagName)
					}
					var keep, remove data.Snapshots
					var reasons []data.KeepReason
					panicked, msg := vh.NoPanic(func() { keep, remove, reasons = data.ApplyPolicy(in, ps.pols[pi]) })
					r.Eval(1)
					r.Transition(int64(n))
					if panicked {
						r.Violationf(ck, vkey("panic"), detail(), "ApplyPolicy panicked: %s", msg)
						continue
					}
					// partition
					var km, rm uint32
					bad := ""
					for _, sn := range keep {
						p, ok := pos[sn]
						if !ok || km&(1<<uint(p)) != 0 {
							bad = "keep holds a foreign or duplicated snapshot"
						}
						km |= 1 << uint(p)
					}
					for _, sn := range remove {
						p, ok := pos[sn]
						if !ok || rm&(1<<uint(p)) != 0 {
							bad = "remove holds a foreign or duplicated snapshot"
						}
						rm |= 1 << uint(p)
					}
					all := uint32(1)<<uint(n) - 1
					if bad == "" && (km&rm != 0 || km|rm != all || len(keep)+len(remove) != n) {
						bad = fmt.Sprintf("keep (%b) and remove (%b) are not a partition of the %d snapshots", km, rm, n)
					}
					if bad != "" {
						r.Violationf(ck, vkey("partition"), detail(), "%s", bad)
						continue
					}
					// reasons
					if len(reasons) != len(keep) {
						r.Violationf(ck, vkey("reasons-len"), detail(), "%d kept snapshots but %d reasons", len(keep), len(reasons))
					} else {
						for i := range keep {
							if reasons[i].Snapshot != keep[i] || len(reasons[i].Matches) == 0 {
								r.Violationf(ck, vkey("reasons"), detail(), "kept snapshot %d (%v) has no reason or the reason belongs to another snapshot", i, keep[i].Time)
								break
							}
							for _, m := range reasons[i].Matches {
								if !seenOutcome[m] {
									seenOutcome[m] = true
									short := m
									if j := strings.IndexAny(m, "0123456789["); j > 0 {
										short = m[:j]
									}
									outcome("reason|" + short)
								}
							}
						}
					}
					// two-sided bound
					must, may := verifC22Model(list, vec, memo)
					if must&^km != 0 {
						r.Violationf(ck, vkey("must"), detail(), "policy %s: snapshot(s) %s must be kept according to the documented rules but were removed (kept: %s)", vec, verifC22Names(list, must&^km), verifC22Names(list, km))
					}
					if km&^may != 0 {
						r.Violationf(ck, vkey("may"), detail(), "policy %s: snapshot(s) %s were kept but no documented rule allows keeping them (kept: %s)", vec, verifC22Names(list, km&^may), verifC22Names(list, km))
					}
					// single options: cardinalities
					if na, only := vec.active(); na == 1 {
						switch {
						case only == verifC22Last:
							N := verifC22Counts[vec[only]]
							want := N
							if N == -1 || N > n {
								want = n
							}
							if bits.OnesCount32(km) != want {
								r.Violationf(ck, vkey("last-count"), detail(), "keep-last %d kept %d of %d snapshots", N, bits.OnesCount32(km), n)
							}
						case only <= verifC22WithinYearly && only != verifC22Within:
							cnt := map[int64]int{}
							allow := map[int64]int{}
							var minT time.Time
							for i, s := range list {
								if i == 0 || s.T.Before(minT) {
									minT = s.T
								}
							}
							for i, s := range list {
								k := verifC22Period(only, s.T)
								if allow[k] == 0 {
									allow[k] = 1
								}
								if s.T.Equal(minT) && allow[k] < 2 {
									allow[k] = 2 // the oldest snapshot may be kept additionally
								}
								if only >= verifC22WithinHourly && verifC22Future(s.T) {
									allow[k] = n // future snapshots are not removed by duration options
								}
								if km&(1<<uint(i)) != 0 {
									cnt[k]++
								}
							}
							for k, c := range cnt {
								if c > allow[k] {
									r.Violationf(ck, vkey("per-period"), detail(), "policy %s kept %d snapshots of one period (at most %d allowed)", vec, c, allow[k])
								}
							}
						}
					}
					if na, _ := vec.active(); na > 0 && n >= 2 && km != 0 && rm != 0 {
						r.NontrivialByConstruction(1)
					}
					keepMasks[pi] = km
					evaluated[pi] = true
					if kc := bits.OnesCount32(km); !keptOutcome[kc][n] {
						keptOutcome[kc][n] = true
						outcome(fmt.Sprintf("kept|%d/%d", kc, n))
					}
					if mask == 0x0c48 && ai == 0 && order == 0 && (pi == 12 || pi == 40) {
						r.Sample(map[string]any{"policy": vec.String(), "snapshots": detail().(map[string]any)["snapshots"], "kept": verifC22Names(list, km), "must": verifC22Names(list, must), "may": verifC22Names(list, may)})
					}
				}
				// monotonicity
				for _, e := range ps.edges {
					if !evaluated[e[0]] || !evaluated[e[1]] {
						continue
					}
					r.Count("monotonicity_comparisons", 1)
					if lost := keepMasks[e[0]] &^ keepMasks[e[1]]; lost != 0 {
						r.Violationf(ck, fmt.Sprintf("C22|monotone|p=%s|q=%s|list=%s|tags=%s", ps.vecs[e[0]], ps.vecs[e[1]], listName, tagName),
							map[string]any{"policy": ps.vecs[e[0]].String(), "raised_policy": ps.vecs[e[1]].String(), "snapshots": listName, "tags": tagName},
							"policy %s keeps %s, the raised policy %s removes %s", ps.vecs[e[0]], verifC22Names(list, keepMasks[e[0]]), ps.vecs[e[1]], verifC22Names(list, lost))
					}
				}
			}
		}
		r.Trace(1)
	}
}

func verifC22Names(list []verifC22Snap, m uint32) string {
	var l []string
	for i, s := range list {
		if m&(1<<uint(i)) != 0 {
			l = append(l, fmt.Sprintf("#%d@%s", i, s.T.Format("2006-01-02T15:04:05")))
		}
	}
	return "[" + strings.Join(l, " ") + "]"
}

package data_test

// C41: trees are encoded deterministically and without loss.
//
// The API present in this version is the streaming one: data.TreeJSONBuilder
// (AddNode / Finalize / Count), data.TreeWriter + data.SaveTree on top of it,
// and data.NewTreeNodeIterator for decoding.  The builder only accepts
// strictly increasing names, so "regardless of insertion scheduling" becomes:
// every insertion order of an entry set either yields the bytes of the sorted
// order or is rejected with ErrTreeNotOrdered at the first out-of-order /
// duplicate entry, and a rejected AddNode leaves the builder unchanged (the
// archiver's treeSaver continues after such a rejection).
//
// Part 1 (names, link targets): every string of <= 4 tokens over
//   {a, ", \, 0x00, 0x0a, 0x7f, 0xff, c3 a9, e2 80 a8} (thorough adds a
//   lone 0xc3, '/', '<' and U+FFFD) as a name (length >= 1) and as a link
//   target, and every (name, target) pair of strings of <= 2 tokens, through
//   json.Marshal/Unmarshal of a Node and through TreeJSONBuilder +
//   NewTreeNodeIterator.
// Part 2 (field values): a base node with every single field value and every
//   pair of values of two different fields from per-field value sets (types,
//   modes, timestamps at year 0 / 9999 / ns precision / zones, 32- and 64-bit
//   extremes, user/group strings, xattrs incl. empty and all-256-bytes values,
//   generic attributes incl. null and nested JSON, content nil/empty/ids,
//   subtree, error).
// Part 3 (unknown keys): unknown JSON keys with values of every JSON kind
//   (incl. nested structures and strings containing brackets) before and/or
//   after "nodes" at tree level, and at the start / end of every node object.
// Part 4 (insertion orders): every permutation of every multiset of <= 4
//   names over 8 names (byte-order traps: "a" < "a\x00" < "a/" < "ab" < "b" <
//   "é" < "\xff"; duplicates), through TreeJSONBuilder; the sorted order also
//   through TreeWriter and SaveTree with a capturing BlobSaver.
//
// Oracle: decode(encode(n)) equals n field by field (own comparison, not
// Node.Equals; byte slices compared by content, timestamps as instants; the
// Path field is not serialised); encoding the same entries twice and through
// the three writers gives identical bytes; the encoded entries, parsed with
// encoding/json into generic maps (independent of Node.UnmarshalJSON), are
// strictly sorted by (unquoted) name; an AddNode with a name <= the last
// accepted name fails with ErrTreeNotOrdered and has no effect; unknown keys
// do not change the decoded nodes; nothing panics.
//
// Not covered: the archiver's treeSaver under different completion orders of
// its children (needs the schedule explorer; treeSaver feeds the builder in
// slice order, so its output is the builder's).  Timestamps outside years
// 0..9999 are clamped by fixTime and are outside the statement.  Extended
// attribute names, user and group are JSON strings: only valid UTF-8 values
// are in the space.

import (
	"bytes"
	"context"
	"encoding/json"
	"errors"
	"fmt"
	"os"
	"sort"
	"strconv"
	"strings"
	"testing"
	"time"

	"github.com/restic/restic/internal/data"
	"github.com/restic/restic/internal/restic"
	"github.com/restic/restic/internal/verifshim/vh"
)

// ------------------------------------------------------------ comparison

func verifC41Diff(a, b *data.Node) string {
	switch {
	case a.Name != b.Name:
		return fmt.Sprintf("name %q != %q", a.Name, b.Name)
	case a.Type != b.Type:
		return fmt.Sprintf("type %q != %q", a.Type, b.Type)
	case a.Mode != b.Mode:
		return fmt.Sprintf("mode %v != %v", a.Mode, b.Mode)
	case !a.ModTime.Equal(b.ModTime):
		return fmt.Sprintf("mtime %v != %v", a.ModTime, b.ModTime)
	case !a.AccessTime.Equal(b.AccessTime):
		return fmt.Sprintf("atime %v != %v", a.AccessTime, b.AccessTime)
	case !a.ChangeTime.Equal(b.ChangeTime):
		return fmt.Sprintf("ctime %v != %v", a.ChangeTime, b.ChangeTime)
	case a.UID != b.UID || a.GID != b.GID:
		return fmt.Sprintf("uid/gid %d/%d != %d/%d", a.UID, a.GID, b.UID, b.GID)
	case a.User != b.User || a.Group != b.Group:
		return fmt.Sprintf("user/group %q/%q != %q/%q", a.User, a.Group, b.User, b.Group)
	case a.Inode != b.Inode:
		return fmt.Sprintf("inode %d != %d", a.Inode, b.Inode)
	case a.DeviceID != b.DeviceID:
		return fmt.Sprintf("device_id %d != %d", a.DeviceID, b.DeviceID)
	case a.Size != b.Size:
		return fmt.Sprintf("size %d != %d", a.Size, b.Size)
	case a.Links != b.Links:
		return fmt.Sprintf("links %d != %d", a.Links, b.Links)
	case a.LinkTarget != b.LinkTarget:
		return fmt.Sprintf("linktarget %q != %q", a.LinkTarget, b.LinkTarget)
	case len(a.LinkTargetRaw) != 0 || len(b.LinkTargetRaw) != 0:
		return "linktarget_raw set on a node outside the JSON representation"
	case a.Device != b.Device:
		return fmt.Sprintf("device %d != %d", a.Device, b.Device)
	case a.Error != b.Error:
		return fmt.Sprintf("error %q != %q", a.Error, b.Error)
	}
	if len(a.ExtendedAttributes) != len(b.ExtendedAttributes) {
		return fmt.Sprintf("%d != %d extended attributes", len(a.ExtendedAttributes), len(b.ExtendedAttributes))
	}
	for i := range a.ExtendedAttributes {
		if a.ExtendedAttributes[i].Name != b.ExtendedAttributes[i].Name || !bytes.Equal(a.ExtendedAttributes[i].Value, b.ExtendedAttributes[i].Value) {
			return fmt.Sprintf("extended attribute %d: %q=%x != %q=%x", i, a.ExtendedAttributes[i].Name, a.ExtendedAttributes[i].Value, b.ExtendedAttributes[i].Name, b.ExtendedAttributes[i].Value)
		}
	}
	if len(a.GenericAttributes) != len(b.GenericAttributes) {
		return fmt.Sprintf("%d != %d generic attributes", len(a.GenericAttributes), len(b.GenericAttributes))
	}
	for k, v := range a.GenericAttributes {
		w, ok := b.GenericAttributes[k]
		if !ok || !bytes.Equal(v, w) {
			return fmt.Sprintf("generic attribute %q: %s != %s (present=%v)", k, v, w, ok)
		}
	}
	if (a.Content == nil) != (b.Content == nil) || len(a.Content) != len(b.Content) {
		return fmt.Sprintf("content %v != %v", a.Content, b.Content)
	}
	for i := range a.Content {
		if a.Content[i] != b.Content[i] {
			return fmt.Sprintf("content[%d] %v != %v", i, a.Content[i], b.Content[i])
		}
	}
	if (a.Subtree == nil) != (b.Subtree == nil) || (a.Subtree != nil && *a.Subtree != *b.Subtree) {
		return fmt.Sprintf("subtree %v != %v", a.Subtree, b.Subtree)
	}
	return ""
}

// verifC41Decode decodes a tree blob with the real iterator.
func verifC41Decode(buf []byte) (nodes []*data.Node, err error) {
	panicked, msg := vh.NoPanic(func() {
		var it data.TreeNodeIterator
		it, err = data.NewTreeNodeIterator(bytes.NewReader(buf))
		if err != nil {
			return
		}
		for item := range it {
			if item.Error != nil {
				err = item.Error
				return
			}
			nodes = append(nodes, item.Node)
		}
	})
	if panicked {
		return nil, fmt.Errorf("PANIC: %s", msg)
	}
	return nodes, err
}

// verifC41Build encodes the nodes (already in the intended order) with TreeJSONBuilder.
func verifC41Build(nodes []*data.Node) (buf []byte, err error) {
	panicked, msg := vh.NoPanic(func() {
		b := data.NewTreeJSONBuilder()
		for _, n := range nodes {
			if err = b.AddNode(n); err != nil {
				return
			}
		}
		if b.Count() != len(nodes) {
			err = fmt.Errorf("Count() = %d after %d accepted nodes", b.Count(), len(nodes))
			return
		}
		buf, err = b.Finalize()
	})
	if panicked {
		return nil, fmt.Errorf("PANIC: %s", msg)
	}
	return buf, err
}

// verifC41RawNames parses a tree blob without any restic code and returns the
// unquoted names in encoded order.
func verifC41RawNames(buf []byte) ([]string, error) {
	var t struct {
		Nodes []map[string]json.RawMessage `json:"nodes"`
	}
	if err := json.Unmarshal(buf, &t); err != nil {
		return nil, err
	}
	var names []string
	for _, n := range t.Nodes {
		var s string
		if err := json.Unmarshal(n["name"], &s); err != nil {
			return nil, err
		}
		u, err := strconv.Unquote(`"` + s + `"`)
		if err != nil {
			return nil, fmt.Errorf("name %q: %v", s, err)
		}
		names = append(names, u)
	}
	return names, nil
}

type verifC41Saver struct{ blobs [][]byte }

func (s *verifC41Saver) SaveBlob(_ context.Context, tpe restic.BlobType, buf []byte, _ restic.ID, _ bool) (restic.ID, bool, int, error) {
	if tpe != restic.TreeBlob {
		return restic.ID{}, false, 0, fmt.Errorf("unexpected blob type %v", tpe)
	}
	s.blobs = append(s.blobs, append([]byte{}, buf...))
	return restic.Hash(buf), false, len(buf), nil
}

func verifC41Strings(tokens []string, minLen, maxLen int) []string {
	var out []string
	var rec func(cur string, n int)
	rec = func(cur string, n int) {
		if n >= minLen {
			out = append(out, cur)
		}
		if n == maxLen {
			return
		}
		for _, t := range tokens {
			rec(cur+t, n+1)
		}
	}
	rec("", 0)
	return out
}

func verifC41Base() *data.Node {
	id := restic.Hash([]byte("verifC41 content"))
	return &data.Node{
		Name: "base", Type: data.NodeTypeFile, Mode: 0o644,
		ModTime:    time.Date(2024, 2, 29, 12, 34, 56, 123456789, time.UTC),
		AccessTime: time.Date(2024, 3, 1, 0, 0, 0, 1, time.UTC),
		ChangeTime: time.Date(2024, 3, 1, 0, 0, 1, 0, time.UTC),
		UID:        1000, GID: 100, User: "user", Group: "group", Inode: 42, Size: 3, Links: 1,
		Content: restic.IDs{id},
	}
}

func TestVerif_C41(t *testing.T) {
	r := vh.Start(t, "C41")
	defer r.Finish()
	r.Rule("part 1: every token string of <= 4 tokens as name and as link target + all pairs of <= 2-token strings, via Node JSON and via TreeJSONBuilder/NewTreeNodeIterator; " +
		"part 2: every single value and every pair of values of two fields from per-field value sets; part 3: unknown keys of every JSON kind at tree and node level in every position; " +
		"part 4: every permutation of every multiset of <= 4 of 8 names through TreeJSONBuilder, sorted order also through TreeWriter and SaveTree; " +
		"non-trivial = the string needs escaping (non-ASCII-printable byte, quote or backslash) / the value differs from the base node / an unknown key is present / the permutation is not the sorted one or has a duplicate")
	r.Assume("the archiver's treeSaver is not driven (it feeds TreeJSONBuilder in slice order; completion-order exploration would need the schedule explorer)",
		"timestamps are compared as instants; []byte values by content; extended attribute names, user, group: valid UTF-8 only (they are plain JSON strings)")

	verifC41Part1(r)
	verifC41Part2(r)
	verifC41Part3(r)
	verifC41Part4(r)
	r.Trace(1)
}

// roundTrip runs one node through both codecs and reports differences.
func verifC41RoundTrip(r *vh.Run, ck, key string, n *data.Node, detail any) {
	// (a) plain JSON
	var buf []byte
	var err error
	var back data.Node
	panicked, msg := vh.NoPanic(func() {
		buf, err = json.Marshal(n)
		if err == nil {
			err = json.Unmarshal(buf, &back)
		}
	})
	r.Eval(1)
	switch {
	case panicked:
		r.Violationf(ck, "C41|panic|"+key, detail, "Node JSON round trip panicked: %s", msg)
	case err != nil:
		r.Violationf(ck, "C41|json-error|"+key, detail, "Node JSON round trip failed: %v", err)
	default:
		if d := verifC41Diff(n, &back); d != "" {
			r.Violationf(ck, "C41|json-lossy|"+key, detail, "decode(encode(node)) differs: %s (json: %s)", d, buf)
		}
	}
	// (b) tree codec
	tree, err := verifC41Build([]*data.Node{n})
	r.Eval(1)
	if err != nil {
		r.Violationf(ck, "C41|tree-encode|"+key, detail, "TreeJSONBuilder failed: %v", err)
		return
	}
	nodes, err := verifC41Decode(tree)
	if err != nil || len(nodes) != 1 {
		r.Violationf(ck, "C41|tree-decode|"+key, detail, "decoding the tree failed: %v (%d nodes) tree=%s", err, len(nodes), tree)
		return
	}
	if d := verifC41Diff(n, nodes[0]); d != "" {
		r.Violationf(ck, "C41|tree-lossy|"+key, detail, "tree round trip differs: %s (tree: %s)", d, tree)
	}
	tree2, _ := verifC41Build([]*data.Node{n})
	if !bytes.Equal(tree, tree2) {
		r.Violationf(ck, "C41|nondeterministic|"+key, detail, "encoding the same node twice gives different bytes")
	}
}

func verifC41NeedsEscape(s string) bool {
	for i := 0; i < len(s); i++ {
		if c := s[i]; c < 0x20 || c >= 0x7f || c == '"' || c == '\\' {
			return true
		}
	}
	return false
}

// ---------------------------------------------------------------- part 1

func verifC41Part1(r *vh.Run) {
	tokens := []string{"a", `"`, `\`, "\x00", "\n", "\x7f", "\xff", "\xc3\xa9", "\xe2\x80\xa8"}
	if r.Thorough() {
		tokens = append(tokens, "\xc3", "/", "<", "\xef\xbf\xbd")
	}
	maxLen := 4
	all := verifC41Strings(tokens, 0, maxLen)
	short := verifC41Strings(tokens, 0, 2)
	sampled := false
	for i, s := range all {
		ck := fmt.Sprintf("str|%d", i/64)
		if !r.Case(ck) {
			continue
		}
		if r.Expired() {
			return
		}
		q := strconv.QuoteToASCII(s)
		if s != "" {
			n := verifC41Base()
			n.Name = s
			verifC41RoundTrip(r, ck, "name="+q, n, map[string]string{"name": q})
		}
		n := verifC41Base()
		n.Type = data.NodeTypeSymlink
		n.LinkTarget = s
		verifC41RoundTrip(r, ck, "linktarget="+q, n, map[string]string{"linktarget": q})
		if verifC41NeedsEscape(s) {
			r.NontrivialByConstruction(1)
		}
		if !sampled && len(s) == 3 && strings.Contains(s, "\xff") {
			sampled = true
			b, _ := json.Marshal(n)
			r.Sample(map[string]any{"part": 1, "linktarget": q, "encoded": string(b)})
		}
	}
	for i, name := range short {
		if name == "" {
			continue
		}
		ck := fmt.Sprintf("pair|%d", i)
		if !r.Case(ck) {
			continue
		}
		for _, target := range short {
			n := verifC41Base()
			n.Type = data.NodeTypeSymlink
			n.Name, n.LinkTarget = name, target
			key := "name=" + strconv.QuoteToASCII(name) + "|linktarget=" + strconv.QuoteToASCII(target)
			verifC41RoundTrip(r, ck, key, n, key)
			if verifC41NeedsEscape(name) || verifC41NeedsEscape(target) {
				r.NontrivialByConstruction(1)
			}
		}
	}
}

// ---------------------------------------------------------------- part 2

type verifC41Value struct {
	name string
	set  func(n *data.Node)
}

func verifC41Fields() map[string][]verifC41Value {
	id1 := restic.Hash([]byte("one"))
	id2 := restic.Hash([]byte("two"))
	allBytes := make([]byte, 256)
	for i := range allBytes {
		allBytes[i] = byte(i)
	}
	times := []struct {
		name string
		t    time.Time
	}{
		{"year0", time.Date(0, 1, 1, 0, 0, 0, 0, time.UTC)},
		{"year9999", time.Date(9999, 12, 31, 23, 59, 59, 999999999, time.UTC)},
		{"ns", time.Date(2024, 2, 29, 23, 59, 59, 1, time.UTC)},
		{"epoch", time.Unix(0, 0).UTC()},
		{"zone+0530", time.Date(2001, 2, 3, 4, 5, 6, 700000000, time.FixedZone("", 5*3600+1800))},
		{"zone-1100", time.Date(1969, 12, 31, 23, 0, 0, 0, time.FixedZone("", -11*3600))},
		{"zero", time.Time{}},
	}
	u64 := []uint64{0, 1, 1<<53 + 1, 1 << 63, 1<<64 - 1}
	f := map[string][]verifC41Value{}
	add := func(field, name string, set func(n *data.Node)) {
		f[field] = append(f[field], verifC41Value{field + "=" + name, set})
	}
	for _, ty := range []data.NodeType{data.NodeTypeFile, data.NodeTypeDir, data.NodeTypeSymlink, data.NodeTypeDev, data.NodeTypeCharDev, data.NodeTypeFifo, data.NodeTypeSocket, data.NodeTypeIrregular, data.NodeTypeInvalid, data.NodeType("future-type")} {
		ty := ty
		add("type", string(ty), func(n *data.Node) { n.Type = ty })
	}
	for _, m := range []os.FileMode{0, 0o644, os.ModeDir | 0o755, os.ModeSymlink | 0o777, os.ModeSetuid | os.ModeSticky | 0o7, 0xFFFFFFFF} {
		m := m
		add("mode", fmt.Sprintf("%#o", uint32(m)), func(n *data.Node) { n.Mode = m })
	}
	for _, tv := range times {
		tv := tv
		add("mtime", tv.name, func(n *data.Node) { n.ModTime = tv.t })
		add("atime", tv.name, func(n *data.Node) { n.AccessTime = tv.t })
		add("ctime", tv.name, func(n *data.Node) { n.ChangeTime = tv.t })
	}
	for _, v := range []uint32{0, 1000, 1<<32 - 1} {
		v := v
		add("uid", fmt.Sprint(v), func(n *data.Node) { n.UID = v })
		add("gid", fmt.Sprint(v), func(n *data.Node) { n.GID = v })
	}
	for _, s := range []string{"", "root", "é\"\\ <&>", " \x00\n"} {
		s := s
		add("user", strconv.QuoteToASCII(s), func(n *data.Node) { n.User = s })
		add("group", strconv.QuoteToASCII(s), func(n *data.Node) { n.Group = s })
		add("error", strconv.QuoteToASCII(s), func(n *data.Node) { n.Error = s })
	}
	for _, v := range u64 {
		v := v
		add("inode", fmt.Sprint(v), func(n *data.Node) { n.Inode = v })
		add("device_id", fmt.Sprint(v), func(n *data.Node) { n.DeviceID = v })
		add("size", fmt.Sprint(v), func(n *data.Node) { n.Size = v })
		add("links", fmt.Sprint(v), func(n *data.Node) { n.Links = v })
		add("device", fmt.Sprint(v), func(n *data.Node) { n.Device = v })
	}
	for _, s := range []string{"", "target", "\xff\xfe", "a\x00\"\\ "} {
		s := s
		add("linktarget", strconv.QuoteToASCII(s), func(n *data.Node) { n.LinkTarget = s })
	}
	xattrs := map[string][]data.ExtendedAttribute{
		"nil":       nil,
		"one":       {{Name: "user.a", Value: []byte("v")}},
		"nilvalue":  {{Name: "user.nil", Value: nil}},
		"empty":     {{Name: "user.empty", Value: []byte{}}},
		"allbytes":  {{Name: "security.all", Value: allBytes}},
		"oddnames":  {{Name: "user.\"q\"\\b", Value: []byte{0}}, {Name: "user.é ", Value: []byte{0xff}}, {Name: "", Value: []byte("noname")}},
		"duplicate": {{Name: "user.d", Value: []byte("1")}, {Name: "user.d", Value: []byte("2")}, {Name: "user.c", Value: []byte("3")}},
	}
	for _, k := range []string{"nil", "one", "nilvalue", "empty", "allbytes", "oddnames", "duplicate"} {
		v := xattrs[k]
		add("xattr", k, func(n *data.Node) { n.ExtendedAttributes = v })
	}
	generic := map[string]map[data.GenericAttributeType]json.RawMessage{
		"nil":     nil,
		"windows": {data.TypeCreationTime: json.RawMessage(`"AAECAwQFBgc="`), data.TypeFileAttributes: json.RawMessage(`32`), data.TypeSecurityDescriptor: json.RawMessage(`"/w=="`)},
		"nested":  {"future.attr": json.RawMessage(`{"a":[1,2,{"b":null}],"c":"}]\""}`)},
		"null":    {"x.null": json.RawMessage(`null`), "x.bool": json.RawMessage(`true`), "x.num": json.RawMessage(`18446744073709551615`)},
		"oddkey":  {"é.\"k\"": json.RawMessage(`""`)},
	}
	for _, k := range []string{"nil", "windows", "nested", "null", "oddkey"} {
		v := generic[k]
		add("generic", k, func(n *data.Node) { n.GenericAttributes = v })
	}
	contents := map[string]restic.IDs{"nil": nil, "empty": {}, "one": {id1}, "three": {id1, id2, id1}}
	for _, k := range []string{"nil", "empty", "one", "three"} {
		v := contents[k]
		add("content", k, func(n *data.Node) { n.Content = v })
	}
	add("subtree", "nil", func(n *data.Node) { n.Subtree = nil })
	add("subtree", "id", func(n *data.Node) { n.Subtree = &id2 })
	add("subtree", "null-id", func(n *data.Node) { n.Subtree = &restic.ID{} })
	return f
}

func verifC41Part2(r *vh.Run) {
	fields := verifC41Fields()
	var names []string
	for k := range fields {
		names = append(names, k)
	}
	sort.Strings(names)
	for i, f1 := range names {
		for _, v1 := range fields[f1] {
			ck := "field|" + v1.name
			if !r.Case(ck) {
				continue
			}
			n := verifC41Base()
			v1.set(n)
			verifC41RoundTrip(r, ck, v1.name, n, v1.name)
			r.NontrivialByConstruction(1)
			for _, f2 := range names[i+1:] {
				for _, v2 := range fields[f2] {
					n := verifC41Base()
					v1.set(n)
					v2.set(n)
					verifC41RoundTrip(r, ck, v1.name+"|"+v2.name, n, []string{v1.name, v2.name})
					r.NontrivialByConstruction(1)
				}
			}
			if v1.name == "xattr=allbytes" {
				r.Sample(map[string]any{"part": 2, "first_value": v1.name, "fields": len(names)})
			}
		}
	}
}

// ---------------------------------------------------------------- part 3

func verifC41Part3(r *vh.Run) {
	values := []string{`"s"`, `0`, `-1.5e3`, `true`, `null`, `{}`, `[]`, `{"a":{"nodes":[{"name":"x"}]},"b":[1,[2,[3]]]}`, `"]}{[\"\\"`, `[{"name":"fake","type":"file"}]`}
	mk := func(name string, f func(n *data.Node)) *data.Node {
		n := verifC41Base()
		n.Name = name
		if f != nil {
			f(n)
		}
		return n
	}
	id := restic.Hash([]byte("sub"))
	trees := [][]*data.Node{
		{},
		{mk("a", nil)},
		{mk("a", nil), mk("a\x00", func(n *data.Node) { n.Type = data.NodeTypeDir; n.Subtree = &id; n.Content = nil }),
			mk("l\xff", func(n *data.Node) { n.Type = data.NodeTypeSymlink; n.LinkTarget = "\xff\"" }),
			mk("x", func(n *data.Node) {
				n.ExtendedAttributes = []data.ExtendedAttribute{{Name: "user.a", Value: []byte{0, 1, 2}}}
				n.GenericAttributes = map[data.GenericAttributeType]json.RawMessage{"k.v": json.RawMessage(`{"q":[1]}`)}
			})},
	}
	for ti, nodes := range trees {
		pristine, err := verifC41Build(nodes)
		if err != nil {
			r.Violationf("", fmt.Sprintf("C41|fixture-tree|%d", ti), ti, "encoding a sorted tree of %d ordinary nodes failed: %v", len(nodes), err)
			continue
		}
		var nodeJSON []string
		for _, n := range nodes {
			b, err := json.Marshal(n)
			if err != nil {
				r.Violationf("", fmt.Sprintf("C41|fixture-node|%d", ti), ti, "encoding an ordinary node failed: %v", err)
			}
			nodeJSON = append(nodeJSON, string(b))
		}
		if want := `{"nodes":[` + strings.Join(nodeJSON, ",") + "]}\n"; want != string(pristine) {
			r.Note("tree %d: builder output is not the plain concatenation of the node encodings (not required)", ti)
		}
		for vi, v := range values {
			ck := fmt.Sprintf("unknown|tree=%d|value=%d", ti, vi)
			if !r.Case(ck) {
				continue
			}
			type variant struct {
				name string
				text string
			}
			join := func(nj []string) string { return strings.Join(nj, ",") }
			variants := []variant{
				{"tree-before", `{"future":` + v + `,"nodes":[` + join(nodeJSON) + `]}`},
				{"tree-after", `{"nodes":[` + join(nodeJSON) + `],"future":` + v + `}`},
				{"tree-both", `{"f1":` + v + `,"f2":` + v + `,"nodes":[` + join(nodeJSON) + `],"f3":` + v + `,"f4":` + v + "}\n"},
			}
			for ni := range nodeJSON {
				for _, where := range []string{"start", "end"} {
					nj := append([]string{}, nodeJSON...)
					if where == "start" {
						nj[ni] = `{"zz_future":` + v + `,` + nj[ni][1:]
					} else {
						nj[ni] = nj[ni][:len(nj[ni])-1] + `,"zz_future":` + v + `}`
					}
					variants = append(variants, variant{fmt.Sprintf("node%d-%s", ni, where), `{"nodes":[` + join(nj) + "]}\n"})
				}
			}
			for _, va := range variants {
				got, err := verifC41Decode([]byte(va.text))
				r.Eval(1)
				r.NontrivialByConstruction(1)
				key := fmt.Sprintf("C41|unknown-key|tree=%d|value=%d|%s", ti, vi, va.name)
				if err != nil {
					r.Violationf(ck, key, va.text, "tree with an unknown key (%s, value %s) is not decoded: %v", va.name, v, err)
					continue
				}
				if len(got) != len(nodes) {
					r.Violationf(ck, key, va.text, "tree with an unknown key (%s): %d nodes decoded, want %d", va.name, len(got), len(nodes))
					continue
				}
				for i := range nodes {
					if d := verifC41Diff(nodes[i], got[i]); d != "" {
						r.Violationf(ck, key, va.text, "tree with an unknown key (%s): node %d differs: %s", va.name, i, d)
						break
					}
				}
			}
			if ti == 1 && vi == 7 {
				r.Sample(map[string]any{"part": 3, "variant": variants[2].name, "text": variants[2].text})
			}
		}
	}
}

// ---------------------------------------------------------------- part 4

func verifC41Part4(r *vh.Run) {
	names := []string{"A", "a", "a\x00", "a/", "ab", "b", "\xc3\xa9", "\xff"}
	sorted := append([]string{}, names...)
	sort.Strings(sorted) // byte order
	mkNode := func(name string, variant int) *data.Node {
		n := verifC41Base()
		n.Name = name
		n.Size = uint64(variant)
		return n
	}
	ctx := context.Background()

	var multisets [][]int
	var rec func(cur []int, from int)
	rec = func(cur []int, from int) {
		if len(cur) > 0 {
			multisets = append(multisets, append([]int{}, cur...))
		}
		if len(cur) == 4 {
			return
		}
		for i := from; i < len(names); i++ {
			rec(append(cur, i), i)
		}
	}
	rec(nil, 0)

	for _, ms := range multisets {
		ck := fmt.Sprintf("order|%v", ms)
		if !r.Case(ck) {
			continue
		}
		if r.Expired() {
			return
		}
		// entries: (name index, variant) so that duplicates are distinguishable
		type entry struct{ name, variant int }
		ents := make([]entry, len(ms))
		for i, ni := range ms {
			ents[i] = entry{ni, i + 1}
		}
		// all permutations
		perm := make([]int, len(ents))
		for i := range perm {
			perm[i] = i
		}
		var perms [][]int
		var gen func(k int)
		gen = func(k int) {
			if k == len(perm) {
				perms = append(perms, append([]int{}, perm...))
				return
			}
			for i := k; i < len(perm); i++ {
				perm[k], perm[i] = perm[i], perm[k]
				gen(k + 1)
				perm[k], perm[i] = perm[i], perm[k]
			}
		}
		gen(0)
		for _, p := range perms {
			var order []string
			for _, i := range p {
				order = append(order, strconv.QuoteToASCII(names[ents[i].name]))
			}
			key := "order=" + strings.Join(order, ",")
			// model: accepted subsequence
			var accepted []*data.Node
			last := ""
			trivial := true
			var problem string
			panicked, msg := vh.NoPanic(func() {
				b := data.NewTreeJSONBuilder()
				for _, i := range p {
					n := mkNode(names[ents[i].name], ents[i].variant)
					err := b.AddNode(n)
					wantOK := n.Name > last
					if !wantOK {
						trivial = false
					}
					if (err == nil) != wantOK {
						problem = fmt.Sprintf("AddNode(%q) after %q: err=%v, expected accepted=%v", n.Name, last, err, wantOK)
						return
					}
					if err != nil && !errors.Is(err, data.ErrTreeNotOrdered) {
						problem = fmt.Sprintf("AddNode(%q) after %q rejected with %v, want ErrTreeNotOrdered", n.Name, last, err)
						return
					}
					if err == nil {
						accepted = append(accepted, n)
						last = n.Name
					}
					if b.Count() != len(accepted) {
						problem = fmt.Sprintf("Count() = %d after %d accepted nodes", b.Count(), len(accepted))
						return
					}
				}
				buf, err := b.Finalize()
				if err != nil {
					problem = fmt.Sprintf("Finalize: %v", err)
					return
				}
				// the bytes must be those of encoding the accepted entries directly
				direct, err := verifC41Build(accepted)
				if err != nil || !bytes.Equal(direct, buf) {
					problem = fmt.Sprintf("bytes after rejected insertions differ from encoding the accepted entries directly (%v): %q vs %q", err, buf, direct)
					return
				}
				raw, err := verifC41RawNames(buf)
				if err != nil {
					problem = fmt.Sprintf("encoded tree is not parseable independently: %v (%q)", err, buf)
					return
				}
				if len(raw) != len(accepted) {
					problem = fmt.Sprintf("encoded tree holds %d entries, %d were accepted", len(raw), len(accepted))
					return
				}
				for i := range raw {
					if raw[i] != accepted[i].Name || (i > 0 && raw[i-1] >= raw[i]) {
						problem = fmt.Sprintf("encoded entries %q are not the accepted names in strictly increasing byte order", raw)
						return
					}
				}
				dec, err := verifC41Decode(buf)
				if err != nil || len(dec) != len(accepted) {
					problem = fmt.Sprintf("decoding failed: %v (%d nodes)", err, len(dec))
					return
				}
				for i := range dec {
					if d := verifC41Diff(accepted[i], dec[i]); d != "" {
						problem = fmt.Sprintf("decoded entry %d differs: %s", i, d)
						return
					}
				}
			})
			r.Eval(1)
			r.Transition(int64(len(p)))
			if !trivial {
				r.NontrivialByConstruction(1)
			}
			if panicked {
				r.Violationf(ck, "C41|panic|"+key, order, "tree builder panicked: %s", msg)
			} else if problem != "" {
				r.Violationf(ck, "C41|builder|"+key, order, "%s", problem)
			}
			r.Outcome(fmt.Sprintf("accepted=%d/%d", len(accepted), len(p)))
		}
		// the sorted order through the three writers: identical bytes
		distinct := true
		for i := 1; i < len(ms); i++ {
			if ms[i] == ms[i-1] {
				distinct = false
			}
		}
		if !distinct {
			continue
		}
		var nodes []*data.Node
		var idx []int
		for _, ni := range ms {
			idx = append(idx, ni)
		}
		sort.Slice(idx, func(i, j int) bool { return names[idx[i]] < names[idx[j]] })
		for i, ni := range idx {
			nodes = append(nodes, mkNode(names[ni], i+1))
		}
		key := fmt.Sprintf("set=%v", ms)
		b1, err1 := verifC41Build(nodes)
		s2, s3 := &verifC41Saver{}, &verifC41Saver{}
		var err2, err3 error
		var id2, id3 restic.ID
		panicked, msg := vh.NoPanic(func() {
			w := data.NewTreeWriter(s2)
			for _, n := range nodes {
				if err2 = w.AddNode(n); err2 != nil {
					return
				}
			}
			if w.Count() != len(nodes) {
				err2 = fmt.Errorf("TreeWriter.Count() = %d, want %d", w.Count(), len(nodes))
				return
			}
			id2, err2 = w.Finalize(ctx)
			// SaveTree from an iterator over the decoded first encoding
			it, err := data.NewTreeNodeIterator(bytes.NewReader(b1))
			if err != nil {
				err3 = err
				return
			}
			id3, err3 = data.SaveTree(ctx, s3, it)
		})
		r.Eval(3)
		switch {
		case panicked:
			r.Violationf(ck, "C41|panic|writers|"+key, ms, "tree writers panicked: %s", msg)
		case err1 != nil || err2 != nil || err3 != nil:
			r.Violationf(ck, "C41|writers-error|"+key, ms, "encoding the sorted entries failed: builder=%v writer=%v savetree=%v", err1, err2, err3)
		case len(s2.blobs) != 1 || len(s3.blobs) != 1 || !bytes.Equal(b1, s2.blobs[0]) || !bytes.Equal(b1, s3.blobs[0]):
			r.Violationf(ck, "C41|writers-differ|"+key, ms, "the same entries give different bytes: builder %q, TreeWriter %q, SaveTree(decode(builder)) %q", b1, s2.blobs, s3.blobs)
		case id2 != restic.Hash(b1) || id3 != id2:
			r.Violationf(ck, "C41|writers-id|"+key, ms, "tree IDs differ: %v %v, hash of bytes %v", id2, id3, restic.Hash(b1))
		}
	}
}

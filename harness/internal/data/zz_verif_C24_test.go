package data_test

// C24: host / tag-list / path filters select exactly the snapshots satisfying
// them, grouping partitions snapshots by the chosen keys (paths and tags
// compared as sets), and `latest` resolves to a newest matching snapshot not
// after the time limit.
//
// The real code is driven through its exported entry points
// (SnapshotFilter.FindAll, SnapshotFilter.FindLatest, FindAll(["latest"]) and
// GroupSnapshots) on an in-memory Lister/LoaderUnpacked that serves the
// snapshot JSON documents in an order chosen by the harness (Connections()=1,
// so the order in which the real code sees snapshots is the list order: this
// makes the list order part of the enumerated space, which is what decides
// tie resolution in findLatest).
//
// Part 1 (FindAll): universe of 60 snapshot types = hosts {h1,h2,""} x path
//   lists {[/a],[/a,/b],[/b,/a],[/b]} x tag lists {none,[a],[a,b],[b,a],[b]};
//   repositories = the whole universe (both list orders), every single type and
//   (thorough) every multiset of 2 types;
//   filters = 8 host lists x 11 tag-list lists x 7 path lists = 616.
//   Oracle: set model (host in list or list empty; some tag list whose tags
//   are all carried, "" standing for "untagged"; every filter path is among
//   the snapshot's paths) => FindAll yields exactly the matching IDs, once.
// Part 2 (latest): every sequence (= list order) of <= 3 snapshots over 24
//   types = hosts {h1,h2} x tags {none,[a]} x paths {[/a],[/a,/b]} x times
//   {t0,t1,t2} (ties arise from repeated times); thorough: additionally every
//   sequence of 4 snapshots over the 12 types with paths [/a,/b];
//   12 filters x 6 time limits {none, before all, t0, t1, between t1 and t2,
//   t2}.  Oracle (two-sided for ties): the result is one of the matching
//   snapshots with time <= limit whose time is maximal, or ErrNoSnapshotFound
//   when there is none; FindAll(["latest"]) obeys the same contract (quick tier:
//   checked for lists of <= 2).
// Part 3 (grouping): every multiset of <= 4 snapshots over 36 types = hosts
//   {h1,h2,""} x paths {[/a],[/a,/b],[/b,/a]} x tags {none,[a],[a,b],[b,a]},
//   in canonical and reversed input order, all 8 group-by combinations.
//   Oracle: the groups are a partition of the input; two snapshots share a
//   group iff they agree on the chosen keys (paths/tags as sets); the group
//   key decodes to exactly the chosen key values; the snapshots still carry
//   the same path and tag sets afterwards.
//
// Deliberately outside the oracle (documentation does not decide them): tag
// lists mixing "" with other tags, duplicate tags/paths inside one snapshot,
// relative filter paths, nil-vs-empty tag slices.

import (
	"context"
	"encoding/json"
	"errors"
	"fmt"
	"sort"
	"strings"
	"testing"
	"time"

	"github.com/restic/restic/internal/data"
	"github.com/restic/restic/internal/restic"
	"github.com/restic/restic/internal/verifshim/vh"
)

type verifC24Type struct {
	Host  string
	Paths []string
	Tags  []string
	T     int // index into verifC24Times
}

func (ty verifC24Type) String() string {
	return fmt.Sprintf("%q/%s/%s/t%d", ty.Host, strings.Join(ty.Paths, "+"), strings.Join(ty.Tags, "+"), ty.T)
}

var verifC24Times = []time.Time{
	time.Date(2024, 3, 10, 12, 0, 0, 0, time.UTC),
	time.Date(2024, 3, 10, 13, 0, 0, 0, time.UTC),
	time.Date(2024, 3, 11, 9, 30, 0, 500, time.UTC),
}

type verifC24Doc struct {
	id  restic.ID
	buf []byte
}

// verifC24Repo is the in-memory snapshot store handed to the real code.
type verifC24Repo struct {
	order []restic.ID
	blobs map[restic.ID][]byte
}

func (r *verifC24Repo) List(ctx context.Context, t restic.FileType, fn func(restic.ID, int64) error) error {
	if t != restic.SnapshotFile {
		return nil
	}
	for _, id := range r.order {
		if err := ctx.Err(); err != nil {
			return err
		}
		if err := fn(id, int64(len(r.blobs[id]))); err != nil {
			return err
		}
	}
	return nil
}

func (r *verifC24Repo) Connections() uint { return 1 }

func (r *verifC24Repo) LoadUnpacked(_ context.Context, t restic.FileType, id restic.ID) ([]byte, error) {
	buf, ok := r.blobs[id]
	if !ok || t != restic.SnapshotFile {
		return nil, fmt.Errorf("verifC24Repo: no such file %v/%v", t, id)
	}
	return buf, nil
}

// verifC24MakeDoc serialises one snapshot of the given type; slot makes equal
// types distinct documents (distinct IDs).
func verifC24MakeDoc(t *testing.T, ty verifC24Type, slot int) verifC24Doc {
	sn := data.Snapshot{
		Time:     verifC24Times[ty.T],
		Paths:    append([]string{}, ty.Paths...),
		Hostname: ty.Host,
		Username: fmt.Sprintf("slot%d", slot),
	}
	if len(ty.Tags) > 0 {
		sn.Tags = append([]string{}, ty.Tags...)
	}
	buf, err := json.Marshal(&sn)
	if err != nil {
		t.Fatalf("marshal snapshot: %v", err)
	}
	return verifC24Doc{id: restic.Hash(buf), buf: buf}
}

func verifC24Has(l []string, s string) bool {
	for _, x := range l {
		if x == s {
			return true
		}
	}
	return false
}

// verifC24ModelMatch is the reference (set) model of filter matching.
func verifC24ModelMatch(ty verifC24Type, hosts []string, tags [][]string, paths []string) bool {
	if len(hosts) > 0 && !verifC24Has(hosts, ty.Host) {
		return false
	}
	if len(tags) > 0 {
		ok := false
		for _, l := range tags {
			sat := true
			if len(l) == 1 && l[0] == "" {
				sat = len(ty.Tags) == 0 // "" = untagged snapshots only
			} else {
				for _, tg := range l {
					if !verifC24Has(ty.Tags, tg) {
						sat = false
					}
				}
			}
			if sat {
				ok = true
			}
		}
		if !ok {
			return false
		}
	}
	for _, p := range paths {
		if !verifC24Has(ty.Paths, p) {
			return false
		}
	}
	return true
}

func verifC24Filter(hosts []string, tags [][]string, paths []string, limit time.Time) *data.SnapshotFilter {
	f := &data.SnapshotFilter{TimestampLimit: limit}
	f.Hosts = append([]string(nil), hosts...)
	for _, l := range tags {
		f.Tags = append(f.Tags, append(data.TagList(nil), l...))
	}
	f.Paths = append([]string(nil), paths...)
	return f
}

func verifC24SetKey(l []string) string {
	c := append([]string{}, l...)
	sort.Strings(c)
	return strings.Join(c, "\x00")
}

func TestVerif_C24(t *testing.T) {
	r := vh.Start(t, "C24")
	defer r.Finish()
	r.Rule("part 1: every filter (616) x the universe repo and every repo of <= 1 (quick) / <= 2 (thorough) snapshot types through FindAll, non-trivial = filter has an active component and the repo is non-empty; " +
		"part 2: every list order of <= 3 snapshots over 24 types (thorough: + every list order of 4 snapshots over 12 types) x 12 filters x 6 limits through FindLatest and FindAll(latest), non-trivial = a snapshot is found and (some snapshot is excluded by filter/limit or the maximum is tied); " +
		"part 3: every multiset of <= 4 snapshots over 36 types x 2 input orders x 8 group-by through GroupSnapshots, non-trivial = >= 2 snapshots and >= 1 grouping key")
	r.Assume("in-memory Lister/LoaderUnpacked with Connections()=1 serves snapshot JSON in harness-chosen order (trusted, 30 lines)",
		"timestamps all UTC; tag lists mixing \"\" with other tags, duplicate tags/paths, relative filter paths are outside the oracle (documentation silent)")
	ctx := context.Background()

	verifC24Part1(ctx, t, r)
	verifC24Part2(ctx, t, r)
	verifC24Part3(t, r)
	r.Trace(1)
}

// ---------------------------------------------------------------- part 1

func verifC24Part1(ctx context.Context, t *testing.T, r *vh.Run) {
	hostsA := []string{"h1", "h2", ""}
	pathsA := [][]string{{"/a"}, {"/a", "/b"}, {"/b", "/a"}, {"/b"}}
	tagsA := [][]string{nil, {"a"}, {"a", "b"}, {"b", "a"}, {"b"}}
	var types []verifC24Type
	for _, h := range hostsA {
		for _, p := range pathsA {
			for _, tg := range tagsA {
				types = append(types, verifC24Type{Host: h, Paths: p, Tags: tg, T: 0})
			}
		}
	}
	// two slots per type so that a repository can hold a type twice
	docs := make([][2]verifC24Doc, len(types))
	for i, ty := range types {
		docs[i][0] = verifC24MakeDoc(t, ty, 0)
		docs[i][1] = verifC24MakeDoc(t, ty, 1)
	}

	fHosts := [][]string{nil, {"h1"}, {"h2"}, {""}, {"h1", "h2"}, {"h1", ""}, {"h2", ""}, {"h1", "h2", ""}}
	fTags := [][][]string{nil, {{"a"}}, {{"b"}}, {{"a", "b"}}, {{"b", "a"}}, {{""}}, {{"a"}, {"b"}}, {{"a"}, {""}}, {{"c"}}, {{"a", "c"}}, {{"a", "b"}, {""}}}
	fPaths := [][]string{nil, {"/a"}, {"/b"}, {"/a", "/b"}, {"/b", "/a"}, {"/c"}, {"/a", "/c"}}

	type member struct{ ty, slot int }
	check := func(ck string, fi int, hosts []string, tags [][]string, paths []string, members []member) {
		repo := &verifC24Repo{blobs: map[restic.ID][]byte{}}
		want := map[restic.ID]bool{}
		for _, m := range members {
			d := docs[m.ty][m.slot]
			repo.order = append(repo.order, d.id)
			repo.blobs[d.id] = d.buf
			if verifC24ModelMatch(types[m.ty], hosts, tags, paths) {
				want[d.id] = true
			}
		}
		got := map[restic.ID]int{}
		f := verifC24Filter(hosts, tags, paths, time.Time{})
		var cbErr error
		err := f.FindAll(ctx, repo, repo, nil, func(id string, sn *data.Snapshot, err error) error {
			if err != nil || sn == nil {
				cbErr = fmt.Errorf("callback %q: %v", id, err)
				return nil
			}
			if sn.ID() == nil || sn.ID().String() != id {
				cbErr = fmt.Errorf("callback id %q does not match snapshot id", id)
				return nil
			}
			got[*sn.ID()]++
			return nil
		})
		r.Eval(1)
		r.Transition(int64(len(members)))
		active := len(hosts)+len(tags)+len(paths) > 0
		if active && len(members) > 0 {
			r.NontrivialByConstruction(1)
		}
		desc := func() any {
			var ms []string
			for _, m := range members {
				ms = append(ms, types[m.ty].String())
			}
			return map[string]any{"hosts": hosts, "tags": tags, "paths": paths, "snapshots": ms}
		}
		if err != nil || cbErr != nil {
			r.Violationf(ck, fmt.Sprintf("C24|findall-error|f=%d", fi), desc(), "FindAll failed: %v / %v", err, cbErr)
			return
		}
		for _, m := range members {
			d := docs[m.ty][m.slot]
			if want[d.id] != (got[d.id] == 1) || got[d.id] > 1 {
				r.Violationf(ck, fmt.Sprintf("C24|findall|hosts=%q|tags=%q|paths=%q|sn=%s", hosts, tags, paths, types[m.ty]), desc(),
					"filter hosts=%q tags=%q paths=%q on snapshot %s: model says match=%v, FindAll yielded it %d time(s)", hosts, tags, paths, types[m.ty], want[d.id], got[d.id])
			}
		}
		if len(members) <= 2 {
			r.Outcome(fmt.Sprintf("findall|%d/%d", len(want), len(members)))
		}
	}

	fi := 0
	for _, hosts := range fHosts {
		for _, tags := range fTags {
			for _, paths := range fPaths {
				fi++
				ck := fmt.Sprintf("findall|f=%d", fi)
				if !r.Case(ck) {
					continue
				}
				// the whole universe, forwards and backwards
				var all, rev []member
				for i := range types {
					all = append(all, member{i, 0})
					rev = append([]member{{i, 0}}, rev...)
				}
				check(ck, fi, hosts, tags, paths, all)
				check(ck, fi, hosts, tags, paths, rev)
				// every repository with <= 2 snapshots
				check(ck, fi, hosts, tags, paths, nil)
				for i := range types {
					check(ck, fi, hosts, tags, paths, []member{{i, 0}})
					if !r.Thorough() {
						continue // quick: universe + singletons (matching is per snapshot); pairs in the thorough tier
					}
					for j := i; j < len(types); j++ {
						check(ck, fi, hosts, tags, paths, []member{{i, 0}, {j, 1}})
					}
				}
				if fi == 130 {
					n := 0
					for i := range types {
						if verifC24ModelMatch(types[i], hosts, tags, paths) {
							n++
						}
					}
					r.Sample(map[string]any{"part": "findall", "hosts": hosts, "tags": tags, "paths": paths, "universe": len(types), "matching": n})
				}
				if r.Expired() {
					return
				}
			}
		}
	}
}

// ---------------------------------------------------------------- part 2

func verifC24Part2(ctx context.Context, t *testing.T, r *vh.Run) {
	var types []verifC24Type
	for _, h := range []string{"h1", "h2"} {
		for _, tg := range [][]string{nil, {"a"}} {
			for _, p := range [][]string{{"/a"}, {"/a", "/b"}} {
				for ti := range verifC24Times {
					types = append(types, verifC24Type{Host: h, Paths: p, Tags: tg, T: ti})
				}
			}
		}
	}
	maxLen := 3
	slots := 4
	docs := make([][]verifC24Doc, len(types))
	for i, ty := range types {
		for s := 0; s < slots; s++ {
			docs[i] = append(docs[i], verifC24MakeDoc(t, ty, s))
		}
	}
	type filt struct {
		hosts []string
		tags  [][]string
		paths []string
	}
	var filters []filt
	for _, h := range [][]string{nil, {"h1"}} {
		for _, tg := range [][][]string{nil, {{"a"}}, {{""}}} {
			for _, p := range [][]string{nil, {"/b"}} {
				filters = append(filters, filt{h, tg, p})
			}
		}
	}
	t0, t1, t2 := verifC24Times[0], verifC24Times[1], verifC24Times[2]
	limits := []time.Time{{}, t0.Add(-time.Second), t0, t1, t1.Add(30 * time.Minute), t2}
	limitNames := []string{"none", "before-all", "t0", "t1", "t1+30m", "t2"}

	// precomputed model matches: mm[filter][type]
	mm := make([][]bool, len(filters))
	for fi, f := range filters {
		mm[fi] = make([]bool, len(types))
		for ti, ty := range types {
			mm[fi][ti] = verifC24ModelMatch(ty, f.hosts, f.tags, f.paths)
		}
	}

	runSeq := func(ck string, seq []int) {
		repo := &verifC24Repo{blobs: map[restic.ID][]byte{}}
		ids := make([]restic.ID, len(seq))
		for pos, ti := range seq {
			d := docs[ti][pos]
			ids[pos] = d.id
			repo.order = append(repo.order, d.id)
			repo.blobs[d.id] = d.buf
		}
		for fi, f := range filters {
			for li, limit := range limits {
				// model
				best := -1
				cand := map[restic.ID]bool{}
				excluded := false
				for _, ti := range seq {
					if !mm[fi][ti] || (!limit.IsZero() && verifC24Times[types[ti].T].After(limit)) {
						excluded = true
						continue
					}
					if types[ti].T > best {
						best = types[ti].T
					}
				}
				for pos, ti := range seq {
					if mm[fi][ti] && types[ti].T == best && !(!limit.IsZero() && verifC24Times[types[ti].T].After(limit)) {
						cand[ids[pos]] = true
					}
				}
				desc := func() any {
					var ms []string
					for _, ti := range seq {
						ms = append(ms, types[ti].String())
					}
					return map[string]any{"list_order": ms, "hosts": f.hosts, "tags": f.tags, "paths": f.paths, "limit": limitNames[li]}
				}
				vkey := func(kind string) string {
					var ms []string
					for _, ti := range seq {
						ms = append(ms, types[ti].String())
					}
					return fmt.Sprintf("C24|%s|seq=%s|hosts=%q|tags=%q|paths=%q|limit=%s", kind, strings.Join(ms, ","), f.hosts, f.tags, f.paths, limitNames[li])
				}

				// real: FindLatest
				flt := verifC24Filter(f.hosts, f.tags, f.paths, limit)
				sn, sub, err := flt.FindLatest(ctx, repo, repo, "latest")
				r.Eval(1)
				r.Transition(int64(len(seq)))
				if len(cand) == 0 {
					if err == nil || !errors.Is(err, data.ErrNoSnapshotFound) || sn != nil {
						r.Violationf(ck, vkey("latest-none"), desc(), "no snapshot matches filter and limit, but FindLatest returned sn=%v err=%v (want ErrNoSnapshotFound)", sn, err)
					}
					r.Outcome("latest|none")
				} else {
					if err != nil || sn == nil || sn.ID() == nil || sub != "" {
						r.Violationf(ck, vkey("latest-err"), desc(), "%d candidates, FindLatest returned sn=%v sub=%q err=%v", len(cand), sn, sub, err)
					} else if !cand[*sn.ID()] {
						r.Violationf(ck, vkey("latest-wrong"), desc(), "FindLatest returned snapshot (host %q tags %v paths %v time %v) which is not a newest matching snapshot not after the limit (newest admissible time %v)",
							sn.Hostname, sn.Tags, sn.Paths, sn.Time.UTC(), verifC24Times[best])
					}
					tie := len(cand) > 1
					if excluded || tie {
						r.NontrivialByConstruction(1)
					}
					r.Outcome(fmt.Sprintf("latest|found|excluded=%v|tie=%v", excluded, tie))
				}

				// real: FindAll with the snapshot ID "latest" (quick tier: lists of <= 2 only)
				if !r.Thorough() && len(seq) > 2 {
					continue
				}
				flt = verifC24Filter(f.hosts, f.tags, f.paths, limit)
				calls := 0
				var gotSn *data.Snapshot
				var gotErr error
				err = flt.FindAll(ctx, repo, repo, []string{"latest"}, func(_ string, sn *data.Snapshot, err error) error {
					calls++
					gotSn, gotErr = sn, err
					return nil
				})
				r.Eval(1)
				if err != nil || calls != 1 {
					r.Violationf(ck, vkey("findall-latest-calls"), desc(), "FindAll([latest]) returned %v after %d callbacks", err, calls)
				} else if len(cand) == 0 {
					if gotErr == nil || gotSn != nil {
						r.Violationf(ck, vkey("findall-latest-none"), desc(), "no candidate, but FindAll([latest]) yielded sn=%v err=%v", gotSn, gotErr)
					}
				} else if gotErr != nil || gotSn == nil || !cand[*gotSn.ID()] {
					r.Violationf(ck, vkey("findall-latest-wrong"), desc(), "FindAll([latest]) yielded sn=%v err=%v, not a newest admissible snapshot", gotSn, gotErr)
				}
			}
		}
	}

	sampled := false
	var rec func(ck string, seq []int)
	rec = func(ck string, seq []int) {
		if r.Expired() {
			return
		}
		runSeq(ck, seq)
		if !sampled && len(seq) == 3 && seq[0] == seq[1] {
			sampled = true
			r.Sample(map[string]any{"part": "latest", "list_order": []string{types[seq[0]].String(), types[seq[1]].String(), types[seq[2]].String()}, "filters": len(filters), "limits": limitNames})
		}
		if len(seq) == maxLen {
			return
		}
		for ti := range types {
			rec(ck, append(seq, ti))
		}
	}
	// case key = first two list positions
	if r.Case("latest|empty") {
		runSeq("latest|empty", nil)
	}
	for a := range types {
		ck := fmt.Sprintf("latest|%d", a)
		if r.Case(ck) {
			runSeq(ck, []int{a})
		}
		for b := range types {
			ck := fmt.Sprintf("latest|%d,%d", a, b)
			if !r.Case(ck) {
				continue
			}
			rec(ck, []int{a, b})
		}
	}
	if !r.Thorough() {
		return
	}
	// thorough: additionally every list order of exactly 4 snapshots over the 12 types
	// with the path list [/a,/b] (the full 24^4 space costs ~45 CPU-minutes)
	var sub []int
	for ti, ty := range types {
		if len(ty.Paths) == 2 {
			sub = append(sub, ti)
		}
	}
	for _, a := range sub {
		for _, b := range sub {
			ck := fmt.Sprintf("latest4|%d,%d", a, b)
			if !r.Case(ck) {
				continue
			}
			for _, c := range sub {
				for _, d := range sub {
					if r.Expired() {
						return
					}
					runSeq(ck, []int{a, b, c, d})
				}
			}
		}
	}
}

// ---------------------------------------------------------------- part 3

func verifC24Part3(t *testing.T, r *vh.Run) {
	var types []verifC24Type
	for _, h := range []string{"h1", "h2", ""} {
		for _, p := range [][]string{{"/a"}, {"/a", "/b"}, {"/b", "/a"}} {
			for _, tg := range [][]string{nil, {"a"}, {"a", "b"}, {"b", "a"}} {
				types = append(types, verifC24Type{Host: h, Paths: p, Tags: tg})
			}
		}
	}
	var opts []data.SnapshotGroupByOptions
	for m := 0; m < 8; m++ {
		opts = append(opts, data.SnapshotGroupByOptions{Host: m&1 != 0, Path: m&2 != 0, Tag: m&4 != 0})
	}
	modelKey := func(ty verifC24Type, o data.SnapshotGroupByOptions) string {
		k := ""
		if o.Host {
			k += "H" + ty.Host
		}
		if o.Path {
			k += "|P" + verifC24SetKey(ty.Paths)
		}
		if o.Tag {
			k += "|T" + verifC24SetKey(ty.Tags)
		}
		return k
	}

	runSet := func(ck string, ms []int) {
		for rev := 0; rev < 2; rev++ {
			if rev == 1 && len(ms) < 2 {
				continue
			}
			seq := append([]int{}, ms...)
			if rev == 1 {
				for i, j := 0, len(seq)-1; i < j; i, j = i+1, j-1 {
					seq[i], seq[j] = seq[j], seq[i]
				}
			}
			for oi, o := range opts {
				// fresh snapshot objects: GroupSnapshots sorts in place
				var list data.Snapshots
				for pos, ti := range seq {
					ty := types[ti]
					sn := &data.Snapshot{Hostname: ty.Host, Paths: append([]string{}, ty.Paths...), Time: verifC24Times[0], Username: fmt.Sprintf("slot%d", pos)}
					if len(ty.Tags) > 0 {
						sn.Tags = append([]string{}, ty.Tags...)
					}
					list = append(list, sn)
				}
				var groups map[string]data.Snapshots
				var grouped bool
				var err error
				panicked, msg := vh.NoPanic(func() { groups, grouped, err = data.GroupSnapshots(list, o) })
				r.Eval(1)
				r.Transition(int64(len(seq)))
				desc := func() any {
					var s []string
					for _, ti := range seq {
						s = append(s, types[ti].String())
					}
					return map[string]any{"snapshots": s, "group_by": o.String()}
				}
				vkey := func(kind string) string {
					var s []string
					for _, ti := range seq {
						s = append(s, types[ti].String())
					}
					return fmt.Sprintf("C24|%s|by=%s|sn=%s", kind, o.String(), strings.Join(s, ","))
				}
				if panicked || err != nil {
					r.Violationf(ck, vkey("group-error"), desc(), "GroupSnapshots failed: %v %s", err, msg)
					continue
				}
				if oi != 0 && len(seq) >= 2 {
					r.NontrivialByConstruction(1)
				}
				if grouped != (o.Host || o.Path || o.Tag) {
					r.Violationf(ck, vkey("group-flag"), desc(), "GroupSnapshots reports grouped=%v for group-by %q", grouped, o.String())
				}
				// partition
				where := map[*data.Snapshot]string{}
				total := 0
				for k, g := range groups {
					if len(g) == 0 {
						r.Violationf(ck, vkey("group-empty"), desc(), "empty group %s", k)
					}
					for _, sn := range g {
						total++
						if _, dup := where[sn]; dup {
							r.Violationf(ck, vkey("group-dup"), desc(), "snapshot appears in two groups or twice")
						}
						where[sn] = k
					}
				}
				if total != len(list) || len(where) != len(list) {
					r.Violationf(ck, vkey("group-partition"), desc(), "groups hold %d entries / %d distinct snapshots, input has %d", total, len(where), len(list))
					continue
				}
				bad := false
				for i := range list {
					if _, ok := where[list[i]]; !ok {
						bad = true
					}
					// the snapshot itself must be unchanged as far as sets go
					if list[i].Hostname != types[seq[i]].Host || verifC24SetKey(list[i].Paths) != verifC24SetKey(types[seq[i]].Paths) || verifC24SetKey(list[i].Tags) != verifC24SetKey(types[seq[i]].Tags) {
						r.Violationf(ck, vkey("group-mutated"), desc(), "snapshot %d changed by grouping: host %q paths %v tags %v", i, list[i].Hostname, list[i].Paths, list[i].Tags)
					}
				}
				if bad {
					r.Violationf(ck, vkey("group-foreign"), desc(), "an input snapshot is in no group")
					continue
				}
				for i := range list {
					for j := i + 1; j < len(list); j++ {
						same := where[list[i]] == where[list[j]]
						want := modelKey(types[seq[i]], o) == modelKey(types[seq[j]], o)
						if same != want {
							r.Violationf(ck, vkey("group-split"), desc(), "group-by %q: snapshots %s and %s: same group=%v, model says %v", o.String(), types[seq[i]], types[seq[j]], same, want)
						}
					}
				}
				// the key decodes to the chosen key values
				for i := range list {
					var k data.SnapshotGroupKey
					if err := json.Unmarshal([]byte(where[list[i]]), &k); err != nil {
						r.Violationf(ck, vkey("group-key-json"), desc(), "group key %q is not a SnapshotGroupKey: %v", where[list[i]], err)
						continue
					}
					ty := types[seq[i]]
					wantHost, wantPaths, wantTags := "", "", ""
					if o.Host {
						wantHost = ty.Host
					}
					if o.Path {
						wantPaths = verifC24SetKey(ty.Paths)
					}
					if o.Tag {
						wantTags = verifC24SetKey(ty.Tags)
					}
					if k.Hostname != wantHost || verifC24SetKey(k.Paths) != wantPaths || verifC24SetKey(k.Tags) != wantTags {
						r.Violationf(ck, vkey("group-key"), desc(), "group key %q does not describe snapshot %s under group-by %q", where[list[i]], ty, o.String())
					}
				}
				r.Outcome(fmt.Sprintf("group|%d/%d", len(groups), len(list)))
			}
		}
	}

	sampled := false
	var rec func(ck string, ms []int)
	rec = func(ck string, ms []int) {
		if r.Expired() {
			return
		}
		runSet(ck, ms)
		if !sampled && len(ms) == 3 {
			sampled = true
			r.Sample(map[string]any{"part": "group", "snapshots": []string{types[ms[0]].String(), types[ms[1]].String(), types[ms[2]].String()}, "group_by": 8, "orders": 2})
		}
		if len(ms) == 4 {
			return
		}
		for ti := ms[len(ms)-1]; ti < len(types); ti++ {
			rec(ck, append(ms, ti))
		}
	}
	if r.Case("group|empty") {
		runSet("group|empty", nil)
	}
	for a := range types {
		ck := fmt.Sprintf("group|%d", a)
		if r.Case(ck) {
			runSet(ck, []int{a})
		}
		for b := a; b < len(types); b++ {
			ck := fmt.Sprintf("group|%d,%d", a, b)
			if !r.Case(ck) {
				continue
			}
			rec(ck, []int{a, b})
		}
	}
}

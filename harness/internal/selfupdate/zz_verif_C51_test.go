package selfupdate

// C51: self-update installs only a signed, hash-matching binary.
//
// Driver (white box, in package): the embedded release key `key` is swapped
// for a test key generated with the same library (golang.org/x/crypto/openpgp)
// so that a *valid* signature can be produced; http.DefaultTransport (used by
// http.DefaultClient in github.go) is replaced by an in-memory GitHub that
// serves the release JSON and the assets.  The real
// DownloadLatestStableRelease is called on a scratch target file.
//
// Space (complete product, Q = T):
//   signature  {valid, asset absent, empty, 3 single-byte flips, by a foreign
//               key, valid signature over different content, a public key
//               block instead of a signature}
// x SHA256SUMS {26 variants: correct, our name first/second, hash of another
//               file listed for our name, name absent, duplicate entries,
//               name only a suffix/prefix of a listed name, ./name, upper-case
//               name, 1 space / tab / 3 spaces / " *" separators, upper-case
//               hex, CRLF, short hash, empty hash, hash with trailing garbage,
//               hash of exactly the served bytes, empty file, no final newline,
//               files of 121 lines (> 10 KiB) with our entry first / in the
//               middle / last / carrying another file's hash}
// x archive    {intact, the other valid archive, byte flipped at first /
//               middle / last position, truncated to 0 / half / len-1, intact
//               content offered under a different file name, + with valid
//               signature: a flip at every byte position and every truncation}
// + HTTP fault {transport error, 500, 404, 403+JSON, body read error, empty
//               200} at each of the 4 requests of the otherwise valid update,
//   and release JSON variants (up to date, tag without v, empty tag, bad JSON).
//
// Oracle (independent of the implementation): whether the signature is valid
// is known by construction.  The checksum file is parsed twice by parsers
// written here: STRICT (`^[0-9a-f]{64}  NAME$`, LF lines) and LENIENT (any
// blank separator, optional '*', upper-case hex, CRLF).  With X = the bytes
// served for the archive asset and N = the asset's file name:
//   must install  <=> signature valid, X is a complete valid archive, and every
//                     strict and lenient entry for exactly N equals SHA-256(X)
//                     (at least one strict entry);
//   must not      <=> signature invalid, or no lenient entry for exactly N
//                     equals SHA-256(X), or any fault / invalid release JSON;
//   otherwise (ambiguous duplicates, non-canonical separators/hex with the
//   right hash) either behaviour is accepted.
// In every case the target afterwards holds either the old bytes or exactly
// the decompressed payload of X - never anything else.
//
// Deviation from DESIGN: "uppercase hex" and "malformed separators" carrying
// the right hash are two-sided (the statement does not say whether such a
// listing counts); with a wrong hash they are must-not.

import (
	"bytes"
	"compress/bzip2"
	"context"
	"crypto/sha256"
	"encoding/hex"
	"encoding/json"
	"errors"
	"fmt"
	"io"
	"net/http"
	"os"
	"path/filepath"
	"regexp"
	"runtime"
	"strings"
	"testing"

	"github.com/restic/restic/internal/verifshim/vh"
	"golang.org/x/crypto/openpgp"
	"golang.org/x/crypto/openpgp/armor"
)

// bzip2 streams produced once with python's bz2 (compress/bzip2 cannot compress)
const (
	verifC51ArchiveA0Hex = "425a6831314159265359d88cb882000006df8000106801e2300a0100803b619d202000484aa191a683d43d4f48f50d06a9a60341300464690b5a241f9cc99b93347410e164445bdad6c5a0e3a57d23f52a238123640b8fec10433f177245385090d88cb882"
	verifC51PayloadA0    = "#!/bin/sh\n# verif C51: NEW restic binary 0.99.0\necho restic 0.99.0\n"
	verifC51ArchiveBHex  = "425a6831314159265359b141a9160000065f8000106800a2100a4094003b679d00200050a0006800008a7941ea3d466a69ea07a34676ec41e9240d411e6ab3a3174cac3fbd497cf62dc1c41d60e562df64cc4639c4c6e2ee48a70a1216283522c0"
	verifC51PayloadB     = "#!/bin/sh\n# verif C51: some OTHER release file\necho other\n"
	verifC51Old          = "OLD restic binary (verif C51)\n"
)

type verifC51Resp struct {
	status int
	ctype  string
	body   []byte
}

type verifC51Fault struct {
	at   int // 1-based request index, 0 = none
	kind string
}

type verifC51RT struct {
	routes map[string]verifC51Resp
	fault  verifC51Fault
	n      int
	log    []string
}

type verifC51ErrReader struct {
	data []byte
	pos  int
}

func (e *verifC51ErrReader) Read(p []byte) (int, error) {
	if e.pos >= len(e.data) {
		return 0, errors.New("verif: connection reset while reading body")
	}
	n := copy(p, e.data[e.pos:])
	e.pos += n
	return n, nil
}

func (rt *verifC51RT) RoundTrip(req *http.Request) (*http.Response, error) {
	rt.n++
	rt.log = append(rt.log, req.URL.String())
	mk := func(status int, ctype string, body io.Reader, n int64) *http.Response {
		h := http.Header{}
		if ctype != "" {
			h.Set("Content-Type", ctype)
		}
		return &http.Response{StatusCode: status, Status: fmt.Sprintf("%d %s", status, http.StatusText(status)), Proto: "HTTP/1.1", ProtoMajor: 1, ProtoMinor: 1,
			Header: h, Body: io.NopCloser(body), ContentLength: n, Request: req}
	}
	resp, ok := rt.routes[req.URL.String()]
	if !ok {
		resp = verifC51Resp{status: 404, body: []byte("not found")}
	}
	if rt.fault.at == rt.n {
		switch rt.fault.kind {
		case "transport-error":
			return nil, errors.New("verif: dial tcp: connection refused")
		case "status-500":
			return mk(500, "", strings.NewReader("oops"), 4), nil
		case "status-404":
			return mk(404, "", strings.NewReader("nope"), 4), nil
		case "status-403-json":
			b := []byte(`{"message":"API rate limit exceeded"}`)
			return mk(403, "application/json; charset=utf-8", bytes.NewReader(b), int64(len(b))), nil
		case "body-error":
			return mk(resp.status, resp.ctype, &verifC51ErrReader{data: resp.body[:len(resp.body)/2]}, -1), nil
		case "empty-200":
			return mk(200, resp.ctype, strings.NewReader(""), 0), nil
		}
	}
	return mk(resp.status, resp.ctype, bytes.NewReader(resp.body), int64(len(resp.body))), nil
}

func verifC51Armor(t *testing.T, typ string, data []byte) []byte {
	var buf bytes.Buffer
	w, err := armor.Encode(&buf, typ, nil)
	if err != nil {
		t.Fatal(err)
	}
	if _, err = w.Write(data); err != nil {
		t.Fatal(err)
	}
	if err = w.Close(); err != nil {
		t.Fatal(err)
	}
	return buf.Bytes()
}

func verifC51Sign(t *testing.T, e *openpgp.Entity, data []byte) (binary []byte) {
	var buf bytes.Buffer
	if err := openpgp.DetachSign(&buf, e, bytes.NewReader(data), nil); err != nil {
		t.Fatal(err)
	}
	return buf.Bytes()
}

var (
	verifC51Strict  = regexp.MustCompile(`^([0-9a-f]{64})  (.+)$`)
	verifC51Lenient = regexp.MustCompile(`^([0-9a-fA-F]{64})[ \t]+\*?(.+)$`)
)

// verifC51Listed returns the hashes listed for exactly name by the strict and the lenient reference parsers.
// verifC51Filler returns checksum lines for other (invented) release files.
func verifC51Filler(from, to int) string {
	var sb strings.Builder
	for i := from; i < to; i++ {
		name := fmt.Sprintf("restic_0.99.0_os%03d_arch%d.bz2", i, i%7)
		sum := sha256.Sum256([]byte(name))
		sb.WriteString(hex.EncodeToString(sum[:]) + "  " + name + "\n")
	}
	return sb.String()
}

func verifC51Listed(sums []byte, name string) (strict, lenient []string) {
	for _, line := range strings.Split(string(sums), "\n") {
		if m := verifC51Strict.FindStringSubmatch(line); m != nil && m[2] == name {
			strict = append(strict, m[1])
		}
		l := strings.TrimSuffix(line, "\r")
		if m := verifC51Lenient.FindStringSubmatch(l); m != nil && m[2] == name {
			lenient = append(lenient, strings.ToLower(m[1]))
		}
	}
	return
}

func verifC51Hex(b []byte) string { h := sha256.Sum256(b); return hex.EncodeToString(h[:]) }

type verifC51Archive struct {
	name    string // variant name
	asset   string // offered asset file name
	data    []byte // served bytes
	payload string // decompressed payload if data is a complete valid archive, else ""
	valid   bool
}

func TestVerif_C51(t *testing.T) {
	r := vh.Start(t, "C51")
	defer r.Finish()
	r.Rule("complete product signature variant x SHA256SUMS variant x archive variant (+ every flip/truncation position under a valid signature) + HTTP fault kind x request position, each through the real DownloadLatestStableRelease with the embedded key swapped for a test key and http.DefaultTransport replaced by an in-memory GitHub; non-trivial = the case reaches signature verification (requests 1-3 served), i.e. the signature/hash decision logic runs")
	r.Assume("the embedded key variable is replaced by a test key generated with the same openpgp library; the real release key itself is not exercised",
		"ambiguous listings (duplicate entries, non-canonical separators or hex case with the right hash) are two-sided")
	if runtime.GOOS == "windows" {
		t.Skip("bz2 fixtures only")
	}

	a0, _ := hex.DecodeString(verifC51ArchiveA0Hex)
	ab, _ := hex.DecodeString(verifC51ArchiveBHex)
	h0, hb := verifC51Hex(a0), verifC51Hex(ab)

	signer, err := openpgp.NewEntity("verif C51 release key", "", "c51@verif.invalid", nil)
	if err != nil {
		t.Fatal(err)
	}
	foreign, err := openpgp.NewEntity("verif C51 foreign key", "", "foreign@verif.invalid", nil)
	if err != nil {
		t.Fatal(err)
	}
	var pub bytes.Buffer
	if err := signer.Serialize(&pub); err != nil {
		t.Fatal(err)
	}
	pubArmored := verifC51Armor(t, openpgp.PublicKeyType, pub.Bytes())
	oldKey := key
	key = pubArmored
	defer func() { key = oldKey }()
	oldTransport := http.DefaultTransport
	defer func() { http.DefaultTransport = oldTransport }()

	// sanity of the fixture: the real GPGVerify accepts a signature we make
	if ok, err := GPGVerify([]byte("x"), verifC51Armor(t, openpgp.SignatureType, verifC51Sign(t, signer, []byte("x")))); !ok || err != nil {
		t.Fatalf("fixture: test signature not accepted: %v", err)
	}

	n0 := fmt.Sprintf("restic_0.99.0_%s_%s.bz2", runtime.GOOS, runtime.GOARCH)
	nWrong := fmt.Sprintf("restic_0.99.1_%s_%s.bz2", runtime.GOOS, runtime.GOARCH)
	const other = "restic_0.99.0_plan9_mips.bz2"

	flip := func(b []byte, i int) []byte { c := append([]byte{}, b...); c[i] ^= 0x01; return c }
	baseArchives := []verifC51Archive{
		{"intact", n0, a0, verifC51PayloadA0, true},
		{"other-valid", n0, ab, verifC51PayloadB, true},
		{"flip-first", n0, flip(a0, 0), "", false},
		{"flip-middle", n0, flip(a0, len(a0)/2), "", false},
		{"flip-last", n0, flip(a0, len(a0)-1), "", false},
		{"trunc-0", n0, []byte{}, "", false},
		{"trunc-half", n0, a0[:len(a0)/2], "", false},
		{"trunc-len-1", n0, a0[:len(a0)-1], "", false},
		{"wrong-name", nWrong, a0, verifC51PayloadA0, true},
	}
	var allPositions []verifC51Archive
	for i := 0; i < len(a0); i++ {
		allPositions = append(allPositions, verifC51Archive{fmt.Sprintf("flip@%d", i), n0, flip(a0, i), "", false})
		allPositions = append(allPositions, verifC51Archive{fmt.Sprintf("trunc@%d", i), n0, a0[:i], "", false})
	}
	// Whether tampered bytes still are a complete valid archive (a flipped padding
	// bit can be) is decided by the standard library decompressor (trusted base).
	fix := func(l []verifC51Archive) {
		for i := range l {
			out, err := io.ReadAll(bzip2.NewReader(bytes.NewReader(l[i].data)))
			if want := err == nil; want != l[i].valid || string(out) != l[i].payload && want {
				if l[i].valid {
					t.Fatalf("fixture %s does not decompress: %v", l[i].name, err)
				}
				l[i].valid, l[i].payload = want, string(out)
				r.Note("archive variant %s still decompresses completely (payload unchanged=%v)", l[i].name, string(out) == verifC51PayloadA0)
			}
		}
	}
	fix(baseArchives)
	fix(allPositions)

	type sumsVariant struct {
		name string
		mk   func(ar verifC51Archive) string
	}
	up := strings.ToUpper
	sums := []sumsVariant{
		{"correct-first", func(verifC51Archive) string { return h0 + "  " + n0 + "\n" + hb + "  " + other + "\n" }},
		{"correct-second", func(verifC51Archive) string { return hb + "  " + other + "\n" + h0 + "  " + n0 + "\n" }},
		{"other-hash", func(verifC51Archive) string { return hb + "  " + n0 + "\n" + h0 + "  " + other + "\n" }},
		{"name-absent", func(verifC51Archive) string { return h0 + "  restic_0.99.0_linux_arm.bz2\n" + hb + "  " + other + "\n" }},
		{"dup-wrong-first", func(verifC51Archive) string { return hb + "  " + n0 + "\n" + h0 + "  " + n0 + "\n" }},
		{"dup-right-first", func(verifC51Archive) string { return h0 + "  " + n0 + "\n" + hb + "  " + n0 + "\n" }},
		{"suffix-of-listed", func(verifC51Archive) string { return h0 + "  evil-" + n0 + "\n" + hb + "  " + other + "\n" }},
		{"prefix-of-listed", func(verifC51Archive) string { return h0 + "  " + n0 + ".old\n" }},
		{"dot-slash", func(verifC51Archive) string { return h0 + "  ./" + n0 + "\n" }},
		{"upper-name", func(verifC51Archive) string { return h0 + "  " + up(n0) + "\n" }},
		{"sep-1-space", func(verifC51Archive) string { return h0 + " " + n0 + "\n" }},
		{"sep-tab", func(verifC51Archive) string { return h0 + "\t" + n0 + "\n" }},
		{"sep-3-space", func(verifC51Archive) string { return h0 + "   " + n0 + "\n" }},
		{"sep-star", func(verifC51Archive) string { return h0 + " *" + n0 + "\n" }},
		{"upper-hex", func(verifC51Archive) string { return up(h0) + "  " + n0 + "\n" }},
		{"crlf", func(verifC51Archive) string { return h0 + "  " + n0 + "\r\n" + hb + "  " + other + "\r\n" }},
		{"short-hash", func(verifC51Archive) string { return h0[:62] + "  " + n0 + "\n" }},
		{"empty-hash", func(verifC51Archive) string { return "  " + n0 + "\n" }},
		{"hash-garbage", func(verifC51Archive) string { return h0 + "zz  " + n0 + "\n" }},
		{"for-served", func(ar verifC51Archive) string {
			return hb + "  " + other + "\n" + verifC51Hex(ar.data) + "  " + ar.asset + "\n"
		}},
		// a checksum file longer than any read buffer (real ones have ~25 lines; 120 here, > 10 KiB): the
		// entry for our name first, in the middle, last; and with another file's hash for our name
		{"long-correct-first", func(verifC51Archive) string { return h0 + "  " + n0 + "\n" + verifC51Filler(0, 120) }},
		{"long-correct-middle", func(verifC51Archive) string {
			return verifC51Filler(0, 60) + h0 + "  " + n0 + "\n" + verifC51Filler(60, 120)
		}},
		{"long-correct-last", func(verifC51Archive) string { return verifC51Filler(0, 120) + h0 + "  " + n0 + "\n" }},
		{"long-other-hash", func(verifC51Archive) string {
			return hb + "  " + n0 + "\n" + verifC51Filler(0, 60) + h0 + "  " + other + "\n" + verifC51Filler(60, 120)
		}},
		{"empty-file", func(verifC51Archive) string { return "" }},
		{"no-final-newline", func(verifC51Archive) string { return hb + "  " + other + "\n" + h0 + "  " + n0 }},
	}

	type sigVariant struct {
		name  string
		valid bool
		mk    func(sums []byte) (asc []byte, present bool)
	}
	flipSig := func(pos func(n int) int) func([]byte) ([]byte, bool) {
		return func(s []byte) ([]byte, bool) {
			b := verifC51Sign(t, signer, s)
			return verifC51Armor(t, openpgp.SignatureType, flip(b, pos(len(b)))), true
		}
	}
	sigs := []sigVariant{
		{"valid", true, func(s []byte) ([]byte, bool) {
			return verifC51Armor(t, openpgp.SignatureType, verifC51Sign(t, signer, s)), true
		}},
		{"absent", false, func([]byte) ([]byte, bool) { return nil, false }},
		{"empty", false, func([]byte) ([]byte, bool) { return []byte{}, true }},
		{"flip-header", false, flipSig(func(n int) int { return 8 })},
		{"flip-middle", false, flipSig(func(n int) int { return n / 2 })},
		{"flip-last", false, flipSig(func(n int) int { return n - 1 })},
		{"foreign-key", false, func(s []byte) ([]byte, bool) {
			return verifC51Armor(t, openpgp.SignatureType, verifC51Sign(t, foreign, s)), true
		}},
		{"other-content", false, func(s []byte) ([]byte, bool) {
			return verifC51Armor(t, openpgp.SignatureType, verifC51Sign(t, signer, append(append([]byte{}, s...), '#'))), true
		}},
		{"public-key-block", false, func([]byte) ([]byte, bool) { return pubArmored, true }},
	}

	dir := filepath.Join(r.Scratch, "bin")
	if err := os.MkdirAll(dir, 0o755); err != nil {
		t.Fatal(err)
	}
	target := filepath.Join(dir, "restic")

	const apiURL = "https://api.github.com/repos/restic/restic/releases/latest"
	type caseIn struct {
		Sig, Sums, Archive string
		Fault              verifC51Fault
		Release            string
	}
	sigCache := map[string]struct {
		asc     []byte
		present bool
	}{}
	// runCase executes one update and judges it.
	runCase := func(ck string, in caseIn, sv sigVariant, sumsText string, ar verifC51Archive, releaseJSON []byte, forceMustNot bool) {
		r.Eval(1)
		sumsB := []byte(sumsText)
		type sigRes struct {
			asc     []byte
			present bool
		}
		sk := sv.name + "\x00" + sumsText
		sr, cached := sigCache[sk]
		if !cached {
			a, p := sv.mk(sumsB)
			sr = sigRes{a, p}
			sigCache[sk] = sr
		}
		asc, ascPresent := sr.asc, sr.present
		assets := []Asset{{ID: 1, Name: "restic-0.99.0.tar.gz", URL: "https://api.github.com/assets/1"},
			{ID: 2, Name: "SHA256SUMS", URL: "https://api.github.com/assets/2"}}
		if ascPresent {
			assets = append(assets, Asset{ID: 3, Name: "SHA256SUMS.asc", URL: "https://api.github.com/assets/3"})
		}
		assets = append(assets, Asset{ID: 4, Name: ar.asset, URL: "https://api.github.com/assets/4"},
			Asset{ID: 5, Name: other, URL: "https://api.github.com/assets/5"})
		if releaseJSON == nil {
			releaseJSON, _ = json.Marshal(Release{Name: "restic 0.99.0", TagName: "v0.99.0", Assets: assets})
		}
		rt := &verifC51RT{fault: in.Fault, routes: map[string]verifC51Resp{
			apiURL:                            {200, "application/json", releaseJSON},
			"https://api.github.com/assets/1": {200, "application/octet-stream", []byte("source tarball")},
			"https://api.github.com/assets/2": {200, "application/octet-stream", sumsB},
			"https://api.github.com/assets/3": {200, "application/octet-stream", asc},
			"https://api.github.com/assets/4": {200, "application/octet-stream", ar.data},
			"https://api.github.com/assets/5": {200, "application/octet-stream", ab},
		}}
		http.DefaultTransport = rt
		_ = os.RemoveAll(dir)
		if err := os.MkdirAll(dir, 0o755); err != nil {
			t.Fatal(err)
		}
		if err := os.WriteFile(target, []byte(verifC51Old), 0o750); err != nil {
			t.Fatal(err)
		}
		var version string
		var derr error
		panicked, pmsg := vh.NoPanic(func() {
			version, derr = DownloadLatestStableRelease(context.Background(), target, "0.9.0", nil)
		})
		http.DefaultTransport = oldTransport
		r.Transition(int64(rt.n))
		r.Trace(1)
		if rt.n >= 3 && in.Fault.at == 0 {
			r.Nontrivial(ck + "|" + in.Archive)
		}
		after, rerr := os.ReadFile(target)
		detail := map[string]any{"case": in, "sums": sumsText, "asset_name": ar.asset, "sha256_served": verifC51Hex(ar.data), "requests": rt.log,
			"returned_version": version, "returned_error": fmt.Sprint(derr)}
		kid := fmt.Sprintf("sig=%s|sums=%s|archive=%s|fault=%d:%s|release=%s", in.Sig, in.Sums, in.Archive, in.Fault.at, in.Fault.kind, in.Release)
		if panicked {
			r.Violationf(ck, "C51|panic|"+kid, detail, "DownloadLatestStableRelease panicked: %s", pmsg)
			return
		}
		// expectation
		strict, lenient := verifC51Listed(sumsB, ar.asset)
		hx := verifC51Hex(ar.data)
		allEq := func(l []string) bool {
			for _, h := range l {
				if h != hx {
					return false
				}
			}
			return true
		}
		anyEq := false
		for _, h := range lenient {
			if h == hx {
				anyEq = true
			}
		}
		mustNot := forceMustNot || !sv.valid || !anyEq
		mustInstall := !mustNot && ar.valid && len(strict) > 0 && allEq(strict) && allEq(lenient)
		replaced := rerr != nil || string(after) != verifC51Old
		switch {
		case rerr != nil:
			r.Violationf(ck, "C51|target-gone|"+kid, detail, "target binary missing after self-update: %v", rerr)
		case replaced && mustNot:
			r.Violationf(ck, "C51|installed-unverified|"+kid, detail,
				"binary was replaced although it must not be (signature valid=%v, listed for %q strict=%v lenient=%v, sha256(archive)=%s); target now %q", sv.valid, ar.asset, strict, lenient, hx, verifC51Trunc(after))
		case replaced && (!ar.valid || string(after) != ar.payload):
			r.Violationf(ck, "C51|installed-corrupt|"+kid, detail, "target replaced by bytes that are not the payload of the verified archive: %q", verifC51Trunc(after))
		case !replaced && mustInstall:
			r.Violationf(ck, "C51|not-installed|"+kid, detail, "signed, hash-matching release was not installed: version=%q err=%v", version, derr)
		}
		exp := "may"
		if mustNot {
			exp = "must-not"
		} else if mustInstall {
			exp = "must"
		}
		ec := "ok"
		if derr != nil {
			ec = derr.Error()
			if i := strings.IndexAny(ec, ":,("); i > 0 {
				ec = ec[:i]
			}
			if len(ec) > 40 {
				ec = ec[:40]
			}
		}
		r.Outcome(fmt.Sprintf("%s|replaced=%v|%s", exp, replaced, ec))
		r.Count("expect_"+exp, 1)
		if replaced {
			r.Count("replaced", 1)
		}
		if (in.Sig == "valid" && in.Sums == "suffix-of-listed" && in.Archive == "intact") || (in.Sig == "foreign-key" && in.Sums == "correct-first" && in.Archive == "intact") ||
			(in.Sig == "valid" && in.Sums == "correct-second" && in.Archive == "intact") {
			r.Sample(map[string]any{"case": in, "expect": exp, "replaced": replaced, "error": fmt.Sprint(derr), "requests": rt.n})
		}
	}

	// product space
	for _, sv := range sigs {
		for _, su := range sums {
			ck := "sig=" + sv.name + "|sums=" + su.name
			if !r.Case(ck) {
				continue
			}
			archives := baseArchives
			if sv.valid {
				archives = append(append([]verifC51Archive{}, baseArchives...), allPositions...)
			}
			for _, ar := range archives {
				runCase(ck, caseIn{Sig: sv.name, Sums: su.name, Archive: ar.name}, sv, su.mk(ar), ar, nil, false)
			}
		}
	}

	// HTTP faults on the otherwise valid update
	for at := 1; at <= 4; at++ {
		for _, kind := range []string{"transport-error", "status-500", "status-404", "status-403-json", "body-error", "empty-200"} {
			ck := fmt.Sprintf("fault=%d:%s", at, kind)
			if !r.Case(ck) {
				continue
			}
			runCase(ck, caseIn{Sig: "valid", Sums: "correct-first", Archive: "intact", Fault: verifC51Fault{at, kind}}, sigs[0], sums[0].mk(baseArchives[0]), baseArchives[0], nil, true)
			r.NontrivialByConstruction(1)
		}
	}
	// release JSON variants
	rel := map[string][]byte{
		"up-to-date":    []byte(`{"name":"restic 0.9.0","tag_name":"v0.9.0","assets":[]}`),
		"tag-without-v": []byte(`{"name":"x","tag_name":"0.99.0","assets":[]}`),
		"empty-tag":     []byte(`{"name":"x","tag_name":"","assets":[]}`),
		"bad-json":      []byte(`{"name":`),
		"no-assets":     []byte(`{"name":"x","tag_name":"v0.99.0","assets":[]}`),
	}
	for name, js := range rel {
		ck := "release=" + name
		if !r.Case(ck) {
			continue
		}
		runCase(ck, caseIn{Sig: "valid", Sums: "correct-first", Archive: "intact", Release: name}, sigs[0], sums[0].mk(baseArchives[0]), baseArchives[0], js, true)
	}
}

func verifC51Trunc(b []byte) string {
	if len(b) > 80 {
		return string(b[:80]) + "..."
	}
	return string(b)
}

package filter_test

// C28: path patterns match per the documented glob semantics
// (doc/040_backup.rst, "Excluding files").
//
// Reference matcher, written from the documentation and not from the code:
//   * a pattern is a list of components; each component is matched against
//     one path component with the syntax of filepath.Match ("Patterns use the
//     syntax of the Go function filepath.Match", "Regular wildcards cannot be
//     used to match over the directory separator", "Patterns need to match on
//     complete path components");
//   * a component "**" matches any number (including zero) of path components
//     ("foo/**/bar" matches "/foo/bar/file" and "/dir1/foo/dir2/bar/file");
//   * a leading "/" anchors the pattern at the root directory, a pattern
//     without it matches at any depth ("foo" matches "/dir1/foo/dir2/file");
//     a trailing "/" is ignored;
//   * a match on a directory covers everything inside it ("/bin" matches
//     "/bin/bash"), i.e. the pattern only has to match a prefix of the
//     remaining path;
//   * in a pattern list a pattern starting with "!" cancels a match made by
//     the patterns before it.
//
// Part A (single patterns): every pattern of 1..3 components over the
//   alphabet {a, b, ab, *, a*, ?, [ab], [!a], [^a], \*, \a, **} (thorough: plus
//   b?, a**), relative and absolute, against every path of 1..4 components
//   over {a, b, ab, *}, absolute and relative, through Match and ChildMatch,
//   ParsePatterns+List / ListWithChild for the one-element list, and
//   ValidatePatterns (a documented-valid pattern must not be rejected).
//   Patterns with a trailing "/" are run for the 1- and 2-component patterns.
// Part B (pattern lists): lists of 1..2 patterns of 1..2 (quick) / 1..3
//   (thorough) components over {a, b, *, **} x {relative, absolute} x {plain,
//   negated}, thorough additionally lists of 3 patterns of 1..2 components
//   over {a, *, **}; against every path of 1..4 components over {a, b},
//   absolute and relative, through List and ListWithChild, and through the
//   wrappers RejectByPattern / IncludeByPattern and their case-insensitive
//   variants (upper-cased patterns resp. paths; "--iexclude: same as --exclude
//   but ignores the case of paths").
// Part C (invalid patterns): the malformed components "[" and "a[" in every
//   position of patterns of 1..3 components (other components from {a, **}),
//   relative/absolute, plain/negated: no panic (error or not is undecided:
//   filepath.Match only reports a malformed component when it evaluates it).
//
// Oracle: Match/List equal the reference; ListWithChild's matched equals
// List's; soundness of "children may match": when ChildMatch / ListWithChild
// answer false for a directory, no enumerated path below it (down to total
// depth 4) matches according to the real matcher nor the reference; nothing
// panics.  The real answer childMayMatch=true is always accepted (the
// statement only requires soundness).
//
// Cases the documentation does not decide are not in the space: the patterns
// "" and "/" and the path "/", components "." and "..", repeated slashes,
// "!" patterns passed to Match/ChildMatch, case-insensitive variants.

import (
	"fmt"
	"path"
	"strings"
	"testing"

	"github.com/restic/restic/internal/filter"
	"github.com/restic/restic/internal/verifshim/vh"
)

type verifC28Pat struct {
	comps []string
	abs   bool
	neg   bool
}

func (p verifC28Pat) String() string {
	s := strings.Join(p.comps, "/")
	if p.abs {
		s = "/" + s
	}
	if p.neg {
		s = "!" + s
	}
	return s
}

type verifC28Path struct {
	comps []string
	abs   bool
	str   string
}

// verifC28RefMatch is the reference matcher (see the file comment).
func verifC28RefMatch(p verifC28Pat, pa verifC28Path) bool {
	var m func(pi, ci int) bool
	m = func(pi, ci int) bool {
		if pi == len(p.comps) {
			return true // the rest of the path lies inside the matched directory
		}
		if p.comps[pi] == "**" {
			for j := ci; j <= len(pa.comps); j++ {
				if m(pi+1, j) {
					return true
				}
			}
			return false
		}
		if ci == len(pa.comps) {
			return false
		}
		ok, err := path.Match(p.comps[pi], pa.comps[ci])
		if err != nil {
			panic("verifC28RefMatch: invalid component in the valid space: " + p.comps[pi])
		}
		return ok && m(pi+1, ci+1)
	}
	if p.abs {
		return pa.abs && m(0, 0)
	}
	for s := 0; s < len(pa.comps); s++ {
		if m(0, s) {
			return true
		}
	}
	return false
}

func verifC28RefList(ps []verifC28Pat, pa verifC28Path) bool {
	matched := false
	for _, p := range ps {
		if verifC28RefMatch(p, pa) {
			matched = !p.neg
		}
	}
	return matched
}

func verifC28Seqs(alpha []string, minLen, maxLen int) [][]string {
	var out [][]string
	var rec func(cur []string)
	rec = func(cur []string) {
		if len(cur) >= minLen {
			out = append(out, append([]string{}, cur...))
		}
		if len(cur) == maxLen {
			return
		}
		for _, a := range alpha {
			rec(append(cur, a))
		}
	}
	rec(nil)
	return out
}

func verifC28Paths(alpha []string, maxLen int) []verifC28Path {
	var out []verifC28Path
	for _, abs := range []bool{true, false} {
		for _, c := range verifC28Seqs(alpha, 1, maxLen) {
			s := strings.Join(c, "/")
			if abs {
				s = "/" + s
			}
			out = append(out, verifC28Path{comps: c, abs: abs, str: s})
		}
	}
	return out
}

// verifC28Below lists for every path index the indices of the enumerated
// paths strictly below it.
func verifC28Below(paths []verifC28Path) [][]int {
	below := make([][]int, len(paths))
	for i, d := range paths {
		for j, q := range paths {
			if i != j && strings.HasPrefix(q.str, d.str+"/") {
				below[i] = append(below[i], j)
			}
		}
	}
	return below
}

func TestVerif_C28(t *testing.T) {
	r := vh.Start(t, "C28")
	defer r.Finish()
	r.Rule("part A: every pattern of <= 3 components over the component alphabet x {relative, absolute} x every path of <= 4 components x {absolute, relative} through Match, ChildMatch, List, ListWithChild, ValidatePatterns; " +
		"part B: every list of <= 2 patterns and every list [p, !q, p] (thorough: also all lists of 3 over a smaller alphabet) incl. negated ones x every path of <= 4 components over {a,b}; part C: malformed components in every position; " +
		"non-trivial = pattern/list contains a wildcard, '**', class, escape or negation, or the child-match answer is false")
	r.Assume("reference matcher uses path.Match for one component (the documentation defines component syntax as that of filepath.Match)",
		"child-match soundness is checked against the enumerated descendants only (total depth <= 4)",
		"undecided by the documentation and therefore outside the space: patterns \"\" and \"/\", path \"/\", '.' and '..' components, repeated slashes, '!' patterns given to Match/ChildMatch; for malformed patterns only absence of panics is required")

	verifC28PartA(r)
	verifC28PartB(r)
	verifC28PartC(r)
	r.Trace(1)
}

var verifC28Seen = map[string]bool{}

// verifC28Outcome records a distinct outcome (cached: the same few strings recur millions of times).
func verifC28Outcome(r *vh.Run, s string) {
	if !verifC28Seen[s] {
		verifC28Seen[s] = true
		r.Outcome(s)
	}
}

func verifC28Special(p verifC28Pat) bool {
	return p.neg || strings.ContainsAny(strings.Join(p.comps, "/"), "*?[\\")
}

// ---------------------------------------------------------------- part A

func verifC28PartA(r *vh.Run) {
	alpha := []string{"a", "b", "ab", "*", "a*", "?", "[ab]", "[!a]", "[^a]", `\*`, `\a`, "**"}
	if r.Thorough() {
		alpha = append(alpha, "b?", "a**")
	}
	paths := verifC28Paths([]string{"a", "b", "ab", "*"}, 4)
	below := verifC28Below(paths)
	real := make([]bool, len(paths))
	ref := make([]bool, len(paths))

	runPat := func(ck string, p verifC28Pat, ps string) {
		nStar, adjacent := 0, false
		shapeC := make([]string, len(p.comps))
		for i, c := range p.comps {
			shapeC[i] = "x"
			if c == "**" {
				shapeC[i] = c
				nStar++
				if i > 0 && p.comps[i-1] == "**" {
					adjacent = true
				}
			}
		}
		shape := verifC28Pat{comps: shapeC, abs: p.abs}.String()
		if adjacent {
			r.Count("patterns_with_adjacent_doublestar_not_compared", 1)
		}
		if err := filter.ValidatePatterns([]string{ps}); err != nil {
			r.Violationf(ck, "C28|validate|pat="+ps, ps, "ValidatePatterns rejects the valid pattern %q: %v", ps, err)
		}
		parsed := filter.ParsePatterns([]string{ps})
		special := verifC28Special(p)
		okAll := true
		for i, pa := range paths {
			var got, gotL, gotLC, cLC bool
			var err, errL, errLC error
			panicked, msg := vh.NoPanic(func() {
				got, err = filter.Match(ps, pa.str)
				gotL, errL = filter.List(parsed, pa.str)
				gotLC, cLC, errLC = filter.ListWithChild(parsed, pa.str)
			})
			r.Eval(3)
			_ = cLC
			if panicked {
				r.Violationf(ck, fmt.Sprintf("C28|panic|pat=%s|path=%s", ps, pa.str), []string{ps, pa.str}, "pattern %q on path %q panicked: %s", ps, pa.str, msg)
				okAll = false
				continue
			}
			if err != nil || errL != nil || errLC != nil {
				r.Violationf(ck, fmt.Sprintf("C28|error|pat=%s|path=%s", ps, pa.str), []string{ps, pa.str}, "valid pattern %q on path %q returned an error: %v %v %v", ps, pa.str, err, errL, errLC)
				okAll = false
				continue
			}
			real[i] = got
			ref[i] = verifC28RefMatch(p, pa)
			if adjacent {
				// "**/**": the documentation does not decide such patterns; not compared
				// (panics and child-match soundness against the real matcher are still checked)
				ref[i] = got
			}
			if got != ref[i] {
				if nStar >= 2 && !got {
					// one root cause (see findings/C28.md): keyed by the shape of the pattern
					r.Violationf(ck, "C28|multi-doublestar-zero-width|shape="+shape, []string{ps, pa.str},
						"Match(%q, %q) = false, the documented rules give true: with more than one '**' in a pattern a '**' is denied its largest spans (the other '**' are counted as needing one path component each)", ps, pa.str)
				} else {
					r.Violationf(ck, fmt.Sprintf("C28|match|pat=%s|path=%s", ps, pa.str), []string{ps, pa.str}, "Match(%q, %q) = %v, the documented rules give %v", ps, pa.str, got, ref[i])
				}
			}
			if gotL != got || gotLC != got {
				r.Violationf(ck, fmt.Sprintf("C28|list1|pat=%s|path=%s", ps, pa.str), []string{ps, pa.str}, "Match(%q, %q) = %v but List = %v, ListWithChild = %v for the one-element list", ps, pa.str, got, gotL, gotLC)
			}
			if special {
				r.NontrivialByConstruction(1)
			}
		}
		if !okAll {
			return
		}
		// soundness of the child-match answers
		for i, pa := range paths {
			if len(below[i]) == 0 {
				continue
			}
			var c, cl bool
			var err, errL error
			panicked, msg := vh.NoPanic(func() {
				c, err = filter.ChildMatch(ps, pa.str)
				_, cl, errL = filter.ListWithChild(parsed, pa.str)
			})
			r.Eval(2)
			if panicked || err != nil || errL != nil {
				r.Violationf(ck, fmt.Sprintf("C28|child-error|pat=%s|path=%s", ps, pa.str), []string{ps, pa.str}, "ChildMatch/ListWithChild(%q, %q) failed: %v %v %s", ps, pa.str, err, errL, msg)
				continue
			}
			verifC28Outcome(r, "A|match="+fmt.Sprint(real[i])+"|child="+fmt.Sprint(c))
			if c && cl {
				continue
			}
			r.NontrivialByConstruction(1)
			for _, j := range below[i] {
				if real[j] || ref[j] {
					which := "ChildMatch"
					if c {
						which = "ListWithChild"
					}
					r.Violationf(ck, fmt.Sprintf("C28|child-unsound|pat=%s|dir=%s|below=%s", ps, pa.str, paths[j].str), []string{ps, pa.str, paths[j].str},
						"%s(%q, %q) says no child can match, but %q matches (real=%v, documented=%v)", which, ps, pa.str, paths[j].str, real[j], ref[j])
					break
				}
			}
		}
	}

	for _, abs := range []bool{false, true} {
		for _, comps := range verifC28Seqs(alpha, 1, 3) {
			for _, trailing := range []bool{false, true} {
				if trailing && len(comps) > 2 {
					continue
				}
				p := verifC28Pat{comps: comps, abs: abs}
				ps := p.String()
				if trailing {
					ps += "/"
				}
				ck := "A|" + ps
				if !r.Case(ck) {
					continue
				}
				if r.Expired() {
					return
				}
				runPat(ck, p, ps)
				if ps == "/a/**/b" {
					n := 0
					for i := range paths {
						if real[i] {
							n++
						}
					}
					r.Sample(map[string]any{"part": "A", "pattern": ps, "paths": len(paths), "matching": n})
				}
			}
		}
	}

	// two '**' separated by literals: x/**/y/**/z (needs 5 components), paths of <= 5 components over {a,b}
	paths = verifC28Paths([]string{"a", "b"}, 5)
	below = verifC28Below(paths)
	real = make([]bool, len(paths))
	ref = make([]bool, len(paths))
	for _, abs := range []bool{false, true} {
		for _, xyz := range verifC28Seqs([]string{"a", "b"}, 3, 3) {
			p := verifC28Pat{comps: []string{xyz[0], "**", xyz[1], "**", xyz[2]}, abs: abs}
			ck := "A5|" + p.String()
			if !r.Case(ck) {
				continue
			}
			runPat(ck, p, p.String())
		}
	}
}

// ---------------------------------------------------------------- part B

func verifC28PartB(r *vh.Run) {
	mk := func(alpha []string, maxLen int) []verifC28Pat {
		var out []verifC28Pat
		for _, comps := range verifC28Seqs(alpha, 1, maxLen) {
			if strings.Count(strings.Join(comps, "/"), "**") >= 2 {
				continue // patterns with several '**' are covered (and triaged) in part A
			}
			for _, abs := range []bool{false, true} {
				for _, neg := range []bool{false, true} {
					out = append(out, verifC28Pat{comps: comps, abs: abs, neg: neg})
				}
			}
		}
		return out
	}
	pats := mk([]string{"a", "b", "*", "**"}, vh.Pick(r, 2, 3))
	paths := verifC28Paths([]string{"a", "b"}, 4)
	below := verifC28Below(paths)
	real := make([]bool, len(paths))
	ref := make([]bool, len(paths))

	run := func(ck string, list []verifC28Pat) {
		strs := make([]string, len(list))
		special := false
		for i, p := range list {
			strs[i] = p.String()
			special = special || verifC28Special(p)
		}
		name := strings.Join(strs, " ; ")
		parsed := filter.ParsePatterns(strs)
		child := make([]bool, len(paths))
		// the exclude / include wrappers used by the commands, and their case-insensitive variants
		upper := make([]string, len(strs))
		for i, s := range strs {
			upper[i] = strings.ToUpper(s)
		}
		warned := ""
		warnf := func(msg string, args ...any) { warned = fmt.Sprintf(msg, args...) }
		rej, inc := filter.RejectByPattern(strs, warnf), filter.IncludeByPattern(strs, warnf)
		irej, iinc := filter.RejectByInsensitivePattern(upper, warnf), filter.IncludeByInsensitivePattern(upper, warnf)
		for i, pa := range paths {
			var got, gotLC, c bool
			var err, errLC error
			var wRej, wInc, wIncC, wIRej, wIInc bool
			panicked, msg := vh.NoPanic(func() {
				got, err = filter.List(parsed, pa.str)
				gotLC, c, errLC = filter.ListWithChild(parsed, pa.str)
				wRej = rej(pa.str)
				wInc, wIncC = inc(pa.str)
				wIRej = irej(strings.ToUpper(pa.str))
				wIInc, _ = iinc(pa.str)
			})
			r.Eval(6)
			if !panicked && (wRej != got || wInc != got || wIncC != c || wIRej != got || wIInc != got || warned != "") {
				r.Violationf(ck, fmt.Sprintf("C28|wrapper|list=%s|path=%s", name, pa.str), []any{strs, pa.str},
					"List([%s], %q) = %v child=%v, but RejectByPattern=%v IncludeByPattern=%v/%v RejectByInsensitivePattern(upper case)=%v IncludeByInsensitivePattern=%v warning=%q",
					name, pa.str, got, c, wRej, wInc, wIncC, wIRej, wIInc, warned)
			}
			if panicked || err != nil || errLC != nil {
				r.Violationf(ck, fmt.Sprintf("C28|list-error|list=%s|path=%s", name, pa.str), []any{strs, pa.str}, "list [%s] on path %q failed: %v %v %s", name, pa.str, err, errLC, msg)
				return
			}
			real[i], child[i] = got, c
			ref[i] = verifC28RefList(list, pa)
			if got != ref[i] {
				r.Violationf(ck, fmt.Sprintf("C28|list|list=%s|path=%s", name, pa.str), []any{strs, pa.str}, "List([%s], %q) = %v, the documented rules give %v", name, pa.str, got, ref[i])
			}
			if gotLC != got {
				r.Violationf(ck, fmt.Sprintf("C28|listwithchild|list=%s|path=%s", name, pa.str), []any{strs, pa.str}, "List([%s], %q) = %v but ListWithChild = %v", name, pa.str, got, gotLC)
			}
			if special {
				r.NontrivialByConstruction(1)
			}
		}
		for i, pa := range paths {
			if len(below[i]) == 0 {
				continue
			}
			verifC28Outcome(r, "B|match="+fmt.Sprint(real[i])+"|child="+fmt.Sprint(child[i]))
			if child[i] {
				continue
			}
			for _, j := range below[i] {
				if real[j] || ref[j] {
					r.Violationf(ck, fmt.Sprintf("C28|list-child-unsound|list=%s|dir=%s|below=%s", name, pa.str, paths[j].str), []any{strs, pa.str, paths[j].str},
						"ListWithChild([%s], %q) says no child can match, but %q matches (real=%v, documented=%v)", name, pa.str, paths[j].str, real[j], ref[j])
					break
				}
			}
		}
	}

	for _, p1 := range pats {
		ck := "B|" + p1.String()
		if !r.Case(ck) {
			continue
		}
		run(ck, []verifC28Pat{p1})
		for _, p2 := range pats {
			if r.Expired() {
				return
			}
			run(ck, []verifC28Pat{p1, p2})
			if p2.neg && !p1.neg {
				// the same pattern again after a negation: it selects again what the negation unselected
				run(ck, []verifC28Pat{p1, p2, p1})
			}
		}
		if p1.String() == "/a/*" {
			r.Sample(map[string]any{"part": "B", "first_pattern": p1.String(), "second_patterns": len(pats), "paths": len(paths)})
		}
	}
	if r.Thorough() {
		small := mk([]string{"a", "*", "**"}, 2)
		for _, p1 := range small {
			ck := "B3|" + p1.String()
			if !r.Case(ck) {
				continue
			}
			for _, p2 := range small {
				for _, p3 := range small {
					if r.Expired() {
						return
					}
					run(ck, []verifC28Pat{p1, p2, p3})
				}
			}
		}
	}
}

// ---------------------------------------------------------------- part C

func verifC28PartC(r *vh.Run) {
	paths := verifC28Paths([]string{"a", "b"}, 3)
	for _, comps := range verifC28Seqs([]string{"a", "**", "[", "a["}, 1, 3) {
		bad := false
		for _, c := range comps {
			if strings.Contains(c, "[") {
				bad = true
			}
		}
		if !bad {
			continue
		}
		for _, abs := range []bool{false, true} {
			for _, neg := range []bool{false, true} {
				p := verifC28Pat{comps: comps, abs: abs, neg: neg}
				ps := p.String()
				ck := "C|" + ps
				if !r.Case(ck) {
					continue
				}
				if err := filter.ValidatePatterns([]string{ps}); err == nil {
					// not part of the statement; recorded, not reported
					r.Count("malformed_pattern_accepted_by_validate", 1)
				}
				for _, pa := range paths {
					sawErr := false
					panicked, msg := vh.NoPanic(func() {
						parsed := filter.ParsePatterns([]string{"b", ps})
						_, e1 := filter.List(parsed, pa.str)
						_, _, e2 := filter.ListWithChild(parsed, pa.str)
						var e3, e4 error
						if !neg {
							_, e3 = filter.Match(ps, pa.str)
							_, e4 = filter.ChildMatch(ps, pa.str)
						}
						sawErr = e1 != nil || e2 != nil || e3 != nil || e4 != nil
					})
					r.Eval(4)
					r.NontrivialByConstruction(1)
					if panicked {
						r.Violationf(ck, fmt.Sprintf("C28|panic|pat=%s|path=%s", ps, pa.str), []string{ps, pa.str}, "malformed pattern %q on path %q panicked: %s", ps, pa.str, msg)
						continue
					}
					verifC28Outcome(r, "C|error="+fmt.Sprint(sawErr))
				}
			}
		}
	}
}

package restic_test

// C57: ID prefixes resolve to the unique matching file or an error.
//
// Space (complete): a universe of 8 IDs built so that pairs share hex prefixes
// of length 0, 1, 7, 63 (odd lengths = half-byte boundaries), containing the
// all-zero ID and the all-'f' ID.  Every ORDERED list of 0..4 distinct IDs of
// the universe (2081 lists; a superset of "every set of <= 4 in both list
// orders") is served by a Lister; for every list the real restic.Find is called (directly and
// through restic.MemorizeList, the lister the commands resolve snapshot IDs against)
// with every prefix of length 0..64 of every universe ID (also of the IDs that
// are not in the list = non-matching prefixes), every universe ID extended by
// one more character (over-long), and a few strings that are no hex prefix.
//
// Oracle (independent): matches = listed IDs whose lower-case hex name has the
// prefix (strings.HasPrefix on hex.EncodeToString).  Exactly one match => that
// ID and a nil error; none => *NoIDByPrefixError; several =>
// *MultipleIDMatchesError.
//
// Deviation from DESIGN: all orderings instead of two orders (cheap, and the
// null-ID sentinel defect is order dependent).  The ID returned together with
// an error is not checked (the statement only demands an error).

import (
	"context"
	"encoding/hex"
	"fmt"
	"strings"
	"testing"

	"github.com/restic/restic/internal/restic"
	"github.com/restic/restic/internal/verifshim/vh"
)

type verifC57Lister struct {
	ids   []restic.ID
	calls int
}

func (l *verifC57Lister) List(ctx context.Context, _ restic.FileType, fn func(restic.ID, int64) error) error {
	l.calls++
	for i, id := range l.ids {
		if err := ctx.Err(); err != nil {
			return err
		}
		if err := fn(id, int64(100+i)); err != nil {
			return err
		}
	}
	return nil
}

var verifC57Names = []string{"Z", "Z63", "Z7", "Z1", "F", "F63", "F7", "F1"}

func verifC57Universe(t *testing.T) []restic.ID {
	hexes := []string{
		strings.Repeat("0", 64),                                // Z   the null ID
		strings.Repeat("0", 63) + "1",                          // Z63 shares 63 characters with Z
		strings.Repeat("0", 7) + "a" + strings.Repeat("5", 56), // Z7  shares 7 characters with Z
		"0" + strings.Repeat("f", 63),                          // Z1  shares 1 character with Z, 0 with F
		strings.Repeat("f", 64),                                // F
		strings.Repeat("f", 63) + "e",                          // F63
		strings.Repeat("f", 7) + "0" + strings.Repeat("a", 56), // F7
		"f" + strings.Repeat("0", 63),                          // F1  shares 1 character with F, 0 with Z
	}
	var out []restic.ID
	for _, h := range hexes {
		if len(h) != 64 {
			t.Fatalf("fixture: bad hex length %d", len(h))
		}
		raw, err := hex.DecodeString(h)
		if err != nil {
			t.Fatalf("fixture: %v", err)
		}
		var id restic.ID
		copy(id[:], raw)
		out = append(out, id)
	}
	return out
}

func verifC57Prefixes(universe []restic.ID) []string {
	seen := map[string]bool{}
	var out []string
	add := func(s string) {
		if !seen[s] {
			seen[s] = true
			out = append(out, s)
		}
	}
	for _, id := range universe {
		h := hex.EncodeToString(id[:])
		for l := 0; l <= 64; l++ {
			add(h[:l])
		}
		add(h + "0")
		add(h + "f")
		add(h + h)
	}
	// not a prefix of any lower-case hex name
	for _, s := range []string{"g", "0g", "fg", "x", " ", "0 ", "-", "0000000z", strings.Repeat("0", 63) + "g", "1", "8", "e", "01", "fe0"} {
		add(s)
	}
	return out
}

func verifC57Classify(id restic.ID, err error) string {
	switch err.(type) {
	case nil:
		return "unique:" + hex.EncodeToString(id[:])
	case *restic.NoIDByPrefixError:
		return "none"
	case *restic.MultipleIDMatchesError:
		return "multiple"
	default:
		return fmt.Sprintf("other-error:%T", err)
	}
}

func verifC57Short(s string) string {
	if strings.HasPrefix(s, "unique:") {
		return "unique"
	}
	return s
}

func TestVerif_C57(t *testing.T) {
	r := vh.Start(t, "C57")
	defer r.Finish()
	r.Rule("every ordered list of 0..4 distinct IDs out of 8 (shared prefixes 0/1/7/63 hex characters, incl. the all-zero and all-f ID) x every prefix length 0..64 of every universe ID + over-long + non-hex strings, through the real restic.Find; non-trivial = the list has >= 2 IDs and at least one of them matches the prefix")
	universe := verifC57Universe(t)
	prefixes := verifC57Prefixes(universe)
	var null restic.ID
	r.Note("%d prefixes per list", len(prefixes))

	// enumerate ordered lists by increasing length
	var lists [][]int
	var rec func(cur []int, used uint, n int)
	rec = func(cur []int, used uint, n int) {
		if len(cur) == n {
			lists = append(lists, append([]int{}, cur...))
			return
		}
		for i := range universe {
			if used&(1<<uint(i)) != 0 {
				continue
			}
			rec(append(cur, i), used|1<<uint(i), n)
		}
	}
	for n := 0; n <= 4; n++ {
		rec(nil, 0, n)
	}

	for _, lst := range lists {
		names := make([]string, len(lst))
		ids := make([]restic.ID, len(lst))
		hexes := make([]string, len(lst))
		for i, u := range lst {
			names[i] = verifC57Names[u]
			ids[i] = universe[u]
			hexes[i] = hex.EncodeToString(universe[u][:])
		}
		ck := "list=" + strings.Join(names, ",")
		if !r.Case(ck) {
			continue
		}
		r.State(ck)
		lister := &verifC57Lister{ids: ids}
		for _, p := range prefixes {
			// reference
			var matches []int
			for i, h := range hexes {
				if strings.HasPrefix(h, p) {
					matches = append(matches, i)
				}
			}
			want := "none"
			switch {
			case len(matches) == 1:
				want = "unique:" + hexes[matches[0]]
			case len(matches) > 1:
				want = "multiple"
			}
			nullMatches, nullFirst := false, false
			for k, m := range matches {
				if ids[m] == null {
					nullMatches = true
					nullFirst = k == 0
				}
			}

			var got string
			var gotID restic.ID
			var gotErr error
			lister.calls = 0
			if pn, msg := vh.NoPanic(func() {
				gotID, gotErr = restic.Find(context.Background(), lister, restic.SnapshotFile, p)
			}); pn {
				r.Violationf(ck, fmt.Sprintf("C57|panic|%s|prefix=%s", ck, p), map[string]any{"list": hexes, "prefix": p}, "Find panicked: %s", msg)
				continue
			}
			got = verifC57Classify(gotID, gotErr)
			// the same lookup through the memorizing lister (restic.MemorizeList), which is what the commands
			// resolve snapshot IDs against: it must agree
			if got == want {
				var mID restic.ID
				var mErr error
				if pn, msg := vh.NoPanic(func() {
					ml, err := restic.MemorizeList(context.Background(), lister, restic.SnapshotFile)
					if err != nil {
						mErr = err
						return
					}
					mID, mErr = restic.Find(context.Background(), ml, restic.SnapshotFile, p)
				}); pn {
					r.Violationf(ck, fmt.Sprintf("C57|panic|memorized|%s|prefix=%s", ck, p), map[string]any{"list": hexes, "prefix": p}, "Find over MemorizeList panicked: %s", msg)
					continue
				}
				if mgot := verifC57Classify(mID, mErr); mgot != want {
					r.Violationf(ck, fmt.Sprintf("C57|memorized-lister|want=%s|got=%s|matching=%d|listed=%d", verifC57Short(want), verifC57Short(mgot), len(matches), len(ids)),
						map[string]any{"list_in_listing_order": hexes, "prefix": p, "want": want, "got": mgot, "err": fmt.Sprint(mErr)},
						"Find(prefix %q) through restic.MemorizeList over listing %v: expected %s, got %s (the plain lister gives the expected answer)", p, names, want, mgot)
					continue
				}
			}
			r.Eval(1)
			r.Transition(int64(len(ids)))
			r.Outcome(verifC57Short(want) + "/" + verifC57Short(got))
			if len(ids) >= 2 && len(matches) >= 1 {
				r.NontrivialByConstruction(1)
			}
			if got == want && len(matches) == 2 && len(ids) == 3 && len(p) == 7 {
				r.Sample(map[string]any{"list": names, "prefix": p, "want": want, "got": got})
			}
			if got == want {
				continue
			}
			detail := map[string]any{"list_in_listing_order": hexes, "list_names": names, "prefix": p, "prefix_len": len(p),
				"matching_ids": len(matches), "want": want, "got": got, "err": fmt.Sprint(gotErr)}
			var key string
			switch {
			case nullMatches && len(matches) == 1:
				// the all-zero ID is the only match and is not found
				key = fmt.Sprintf("C57|unique-null-id|want=unique|got=%s", verifC57Short(got))
			case nullMatches && len(matches) > 1:
				key = fmt.Sprintf("C57|ambiguous-with-null-id|matches=%d|null-listed-first=%v|want=multiple|got=%s", len(matches), nullFirst, verifC57Short(got))
			default:
				plc := "1..63"
				switch {
				case len(p) == 0:
					plc = "0"
				case len(p) == 64:
					plc = "64"
				case len(p) > 64:
					plc = ">64"
				}
				key = fmt.Sprintf("C57|mismatch|want=%s|got=%s|matching=%d|listed=%d|prefixlen=%s", verifC57Short(want), verifC57Short(got), len(matches), len(ids), plc)
			}
			r.Violationf(ck, key, detail, "Find(prefix %q) over listing %v: %d listed IDs have the prefix, expected %s, got %s", p, names, len(matches), want, got)
		}
		r.Trace(1)
	}
}
